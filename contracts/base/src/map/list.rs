use std::cmp::Ordering;
use crate::EMPTY_REF;
use crate::map::entity::Entity;
use crate::map::sort::MapCollection;

pub struct MapList<K, V> {
    pub(super) buffer: Vec<Entity<K, V>>,
}

impl<K: Copy, V: Clone> MapList<K, V> {
    #[inline(always)]
    pub fn new(capacity: usize) -> Self {
        Self {
            buffer: Vec::with_capacity(capacity)
        }
    }
}

impl<K: Copy + Ord, V: Clone> MapCollection<K, V> for MapList<K, V> {
    #[inline]
    fn is_empty(&self) -> bool {
        self.buffer.is_empty()
    }

    #[inline]
    fn insert(&mut self, key: K, val: V) {
        let index = self
            .buffer
            .binary_search_by_key(&key, |e| e.key)
            .unwrap_or_else(|index| index);
        self.buffer.insert(index, Entity::new(key, val));
    }

    #[inline]
    fn delete(&mut self, key: K) {
        if let Ok(index) = self.buffer.binary_search_by_key(&key, |e| e.key) {
            self.buffer.remove(index);
        }
    }

    #[inline]
    fn delete_by_index(&mut self, index: u32) {
        self.buffer.remove(index as usize);
    }

    #[inline]
    fn get_value(&self, key: K) -> Option<&V> {
        if let Ok(index) = self.buffer.binary_search_by_key(&key, |e| e.key) {
            Some(&unsafe { self.buffer.get_unchecked(index) }.val)
        } else {
            None
        }
    }

    #[inline]
    fn value_by_index(&self, index: u32) -> &V {
        &unsafe { self.buffer.get_unchecked(index as usize) }.val
    }

    #[inline]
    fn value_by_index_mut(&mut self, index: u32) -> &mut V {
        &mut unsafe { self.buffer.get_unchecked_mut(index as usize) }.val
    }

    #[inline]
    fn first_index_less(&self, key: K) -> u32 {
        match self.buffer.binary_search_by(|e| e.key.cmp(&key)) {
            Ok(index) => index as u32,
            Err(index) => {
                if index > 0 {
                    (index - 1) as u32
                } else {
                    EMPTY_REF
                }
            }
        }
    }

    #[inline]
    fn first_index_less_by<F>(&self, f: F) -> u32
    where
        F: Fn(K) -> Ordering,
    {
        match self.buffer.binary_search_by(|e| f(e.key)) {
            Ok(index) => index as u32,
            Err(index) => {
                if index > 0 {
                    (index - 1) as u32
                } else {
                    EMPTY_REF
                }
            }
        }
    }

    #[inline]
    fn clear(&mut self) {
        self.buffer.clear();
    }
}