#[derive(Debug, Clone, Copy)]
pub struct SegRange<R> {
    pub min: R,
    pub max: R
}

pub trait SegExpCollection<R, E, V> {

    type Iter<'a>: Iterator<Item = V>
    where
        Self: 'a;

    fn insert_by_range(&mut self, range: SegRange<R>, val: V);
    fn iter_by_range(&mut self, range: SegRange<R>, time: E) -> Self::Iter<'_>;

    fn clear(&mut self);
}

#[cfg(test)]
mod tests {


    #[test]
    fn test_00() {

    }
}