use std::cmp::Ordering;

pub trait KeyValue<K> {
    fn key(&self) -> &K;
}

pub trait SetCollection<K, V> {
    fn is_empty(&self) -> bool;
    fn insert(&mut self, val: V);
    fn delete(&mut self, key: &K);
    fn delete_by_index(&mut self, index: u32);
    fn get_value(&self, key: &K) -> Option<&V>;
    fn index_after(&self, index: u32) -> u32;
    fn index_before(&self, index: u32) -> u32;
    fn value_by_index(&self, index: u32) -> &V;
    fn value_by_index_mut(&mut self, index: u32) -> &mut V;
    fn first_index_less(&self, key: &K) -> u32;
    fn first_index_less_by<F>(&self, f: F) -> u32
    where
        F: Fn(&K) -> Ordering;

    fn clear(&mut self);
}

impl KeyValue<i8> for i8 {
    fn key(&self) -> &i8 {
        self
    }
}

impl KeyValue<i16> for i16 {
    fn key(&self) -> &i16 {
        self
    }
}

impl KeyValue<i32> for i32 {
    fn key(&self) -> &i32 {
        self
    }
}

impl KeyValue<i64> for i64 {
    fn key(&self) -> &i64 {
        self
    }
}

impl KeyValue<u8> for u8 {
    fn key(&self) -> &u8 {
        self
    }
}

impl KeyValue<u16> for u16 {
    fn key(&self) -> &u16 {
        self
    }
}

impl KeyValue<u32> for u32 {
    fn key(&self) -> &u32 {
        self
    }
}

impl KeyValue<u64> for u64 {
    fn key(&self) -> &u64 {
        self
    }
}

impl KeyValue<usize> for usize {
    fn key(&self) -> &usize {
        self
    }
}