#!/usr/bin/env python3
"""replaces everything after the `<!-- TABLES -->` marker of DESIGN.md with the output of tools/mkdesign12.py"""
import os, subprocess
V = os.path.dirname(os.path.dirname(os.path.abspath(__file__)))
p = os.path.join(V, 'DESIGN.md')
s = open(p).read()
i = s.index('<!-- TABLES -->') + len('<!-- TABLES -->')
t = subprocess.run(['python3', os.path.join(V, 'tools', 'mkdesign12.py')], capture_output=True, text=True).stdout
open(p, 'w').write(s[:i] + '\n\n' + t)
print('tables:', len(t.split('\n')), 'lines')
