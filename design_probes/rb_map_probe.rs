#![feature(allocator_api)]
use vstd::prelude::*;
verus! {
mod map {
use vstd::prelude::*;
use std::cmp::Ordering;
use vstd::std_specs::cmp::*;

pub const EMPTY_REF: u32 = u32::MAX;
const NIL_INDEX: u32 = 0;

#[derive(PartialEq, Clone, Copy)]
pub enum Color { Red, Black }

pub assume_specification[ <Color as PartialEq>::eq ](a: &Color, b: &Color) -> (r: bool)
    ensures r == (*a == *b);

pub struct Entity<K, V> { pub key: K, pub val: V }

// stands for #[derive(Clone)]; assumption on the user's types: Clone returns an equal value
impl<K: Clone, V: Clone> Clone for Entity<K, V> {
    #[verifier::external_body]
    fn clone(&self) -> (r: Self)
        ensures r == *self,
    {
        Entity { key: self.key.clone(), val: self.val.clone() }
    }
}

pub struct Node<K, V> {
    pub parent: u32,
    pub left: u32,
    pub right: u32,
    pub color: Color,
    pub entity: Entity<K, V>,
}

pub struct Pool<K, V> {
    pub buffer: Vec<Node<K, V>>,
    pub unused: Vec<u32>,
}

pub ghost struct NG { pub pos: int, pub a: int, pub b: int, pub bh: int }
pub ghost struct G { pub ord: Seq<u32>, pub ng: Seq<NG> }

pub struct MapTree<K, V> {
    pub store: Pool<K, V>,
    pub root: u32,
    pub g: Ghost<G>,
}

pub open spec fn key_lt<K: Ord>(a: K, b: K) -> bool { a.cmp_spec(&b) == Ordering::Less }

pub type Buf<K, V> = Seq<Node<K, V>>;

pub open spec fn in_tree<K, V>(buf: Buf<K, V>, g: G, i: int) -> bool {
    &&& 0 <= i < buf.len()
    &&& 0 <= g.ng[i].pos < g.ord.len()
    &&& g.ord[g.ng[i].pos] as int == i
}

pub open spec fn link_in_tree<K, V>(buf: Buf<K, V>, g: G, l: u32) -> bool {
    l != EMPTY_REF && in_tree(buf, g, l as int)
}

// local structural condition of an in-tree node, in four parts
pub open spec fn range_ok(g: G, i: int) -> bool {
    0 <= g.ng[i].a <= g.ng[i].pos < g.ng[i].b <= g.ord.len()
}

pub open spec fn left_ok<K, V>(buf: Buf<K, V>, g: G, i: int) -> bool {
    let nd = buf[i];
    if g.ng[i].a == g.ng[i].pos { nd.left == EMPTY_REF } else {
        &&& link_in_tree(buf, g, nd.left)
        &&& g.ng[nd.left as int].a == g.ng[i].a && g.ng[nd.left as int].b == g.ng[i].pos
        &&& buf[nd.left as int].parent as int == i
    }
}

pub open spec fn right_ok<K, V>(buf: Buf<K, V>, g: G, i: int) -> bool {
    let nd = buf[i];
    if g.ng[i].pos + 1 == g.ng[i].b { nd.right == EMPTY_REF } else {
        &&& link_in_tree(buf, g, nd.right)
        &&& g.ng[nd.right as int].a == g.ng[i].pos + 1 && g.ng[nd.right as int].b == g.ng[i].b
        &&& buf[nd.right as int].parent as int == i
    }
}

pub open spec fn parent_ok<K, V>(buf: Buf<K, V>, g: G, root: u32, i: int) -> bool {
    let nd = buf[i];
    if nd.parent == EMPTY_REF { i == root as int } else {
        &&& i != root as int
        &&& link_in_tree(buf, g, nd.parent)
        &&& (buf[nd.parent as int].left as int == i || buf[nd.parent as int].right as int == i)
    }
}

pub open spec fn node_ok<K, V>(buf: Buf<K, V>, g: G, root: u32, i: int) -> bool {
    &&& range_ok(g, i)
    &&& left_ok(buf, g, i)
    &&& right_ok(buf, g, i)
    &&& parent_ok(buf, g, root, i)
}

#[verifier::opaque]
pub open spec fn sorted<K: Ord, V>(buf: Buf<K, V>, g: G) -> bool {
    forall|q1: int, q2: int| 0 <= q1 < q2 < g.ord.len() && g.ord[q1] != 0u32 && g.ord[q2] != 0u32
        ==> key_lt(#[trigger] buf[g.ord[q1] as int].entity.key, #[trigger] buf[g.ord[q2] as int].entity.key)
}

#[verifier::opaque]
pub open spec fn sinv<K: Ord, V>(buf: Buf<K, V>, g: G, root: u32) -> bool {
    &&& g.ng.len() == buf.len()
    &&& 1 <= buf.len() < EMPTY_REF
    &&& forall|q: int| 0 <= q < g.ord.len() ==> 0 <= (#[trigger] g.ord[q]) as int && (g.ord[q] as int) < buf.len() && g.ng[g.ord[q] as int].pos == q
    &&& forall|i: int| in_tree(buf, g, i) ==> #[trigger] node_ok(buf, g, root, i)
    &&& if g.ord.len() == 0 { root == EMPTY_REF } else {
            &&& link_in_tree(buf, g, root)
            &&& g.ng[root as int].a == 0 && g.ng[root as int].b == g.ord.len()
            &&& buf[root as int].parent == EMPTY_REF
        }
    &&& sorted(buf, g)
}

pub open spec fn same_payload<K, V>(b1: Buf<K, V>, b0: Buf<K, V>) -> bool {
    &&& b1.len() == b0.len()
    &&& forall|i: int| 0 <= i < b1.len() ==> (#[trigger] b1[i]).color == b0[i].color && b1[i].entity == b0[i].entity
}


pub open spec fn bh_of(g: G, l: u32) -> int { if l == EMPTY_REF { 0 } else { g.ng[l as int].bh } }
pub open spec fn is_blk<K, V>(buf: Buf<K, V>, l: u32) -> bool { l == EMPTY_REF || buf[l as int].color == Color::Black }
pub open spec fn blk(c: Color) -> int { if c == Color::Black { 1 } else { 0 } }

// local red-black condition at in-tree node i; `exc` is the slot exempt from the red-red test (-1: none)
pub open spec fn color_ok<K, V>(buf: Buf<K, V>, g: G, i: int, exc: int) -> bool {
    let nd = buf[i];
    &&& g.ng[i].bh >= 0
    &&& bh_of(g, nd.left) == bh_of(g, nd.right)
    &&& g.ng[i].bh == bh_of(g, nd.left) + blk(nd.color)
    &&& nd.color == Color::Red ==> (nd.left as int == exc || is_blk(buf, nd.left)) && (nd.right as int == exc || is_blk(buf, nd.right))
}

#[verifier::opaque]
pub open spec fn cinv<K, V>(buf: Buf<K, V>, g: G, exc: int) -> bool {
    forall|i: int| in_tree(buf, g, i) ==> #[trigger] color_ok(buf, g, i, exc)
}

pub open spec fn same_entities<K, V>(b1: Buf<K, V>, b0: Buf<K, V>) -> bool {
    &&& b1.len() == b0.len()
    &&& forall|i: int| 0 <= i < b1.len() ==> (#[trigger] b1[i]).entity == b0[i].entity
}

pub open spec fn range_len(g: G, i: int) -> int { g.ng[i].b - g.ng[i].a }


pub open spec fn same_struct<K, V>(b1: Buf<K, V>, g1: G, b0: Buf<K, V>, g0: G) -> bool {
    &&& b1.len() == b0.len()
    &&& g1.ord == g0.ord
    &&& g1.ng.len() == g0.ng.len()
    &&& forall|i: int| 0 <= i < b1.len() ==> {
            &&& (#[trigger] b1[i]).parent == b0[i].parent && b1[i].left == b0[i].left && b1[i].right == b0[i].right
            &&& b1[i].entity == b0[i].entity
        }
    &&& forall|i: int| 0 <= i < g1.ng.len() ==> {
            &&& (#[trigger] g1.ng[i]).pos == g0.ng[i].pos && g1.ng[i].a == g0.ng[i].a && g1.ng[i].b == g0.ng[i].b
        }
}

// recolouring and re-assigning ghost black heights does not disturb the structural invariant
pub proof fn lemma_sinv_same_struct<K: Ord, V>(b1: Buf<K, V>, g1: G, b0: Buf<K, V>, g0: G, r0: u32)
    requires sinv(b0, g0, r0), same_struct(b1, g1, b0, g0),
    ensures sinv(b1, g1, r0),
{
    reveal(sinv);
    assert(sorted(b1, g1)) by { reveal(sorted); }
    assert forall|i: int| in_tree(b1, g1, i) implies #[trigger] node_ok(b1, g1, r0, i) by {
        assert(in_tree(b0, g0, i));
        assert(node_ok(b0, g0, r0, i));
    }
}

// a red-red exemption that is no longer needed can be dropped
pub proof fn lemma_cinv_drop_exc<K: Ord, V>(buf: Buf<K, V>, g: G, root: u32, exc: int)
    requires
        sinv(buf, g, root), cinv(buf, g, exc), in_tree(buf, g, exc),
        buf[exc].parent == EMPTY_REF || buf[buf[exc].parent as int].color == Color::Black || buf[exc].color == Color::Black,
    ensures cinv(buf, g, -1),
{
    reveal(sinv); reveal(cinv);
    assert forall|i: int| in_tree(buf, g, i) implies #[trigger] color_ok(buf, g, i, -1) by {
        assert(node_ok(buf, g, root, i));
        assert(color_ok(buf, g, i, exc));
    }
}


pub open spec fn set_color<K, V>(n: Node<K, V>, c: Color) -> Node<K, V> { Node { color: c, ..n } }
pub open spec fn add_bh(ng: Seq<NG>, i: int, d: int) -> Seq<NG> { ng.update(i, NG { bh: ng[i].bh + d, ..ng[i] }) }

// facts the insert fix-up needs about the neighbourhood of the red node n with red parent
pub proof fn lemma_insert_fix_facts<K: Ord, V>(b0: Buf<K, V>, g0: G, r0: u32, n: int)
    requires
        sinv(b0, g0, r0), cinv(b0, g0, n), in_tree(b0, g0, n),
        b0[n].parent != EMPTY_REF,
        b0[n].color == Color::Red,
        b0[b0[n].parent as int].color == Color::Red,
    ensures
        b0.len() < EMPTY_REF,
        0 <= range_len(g0, n) <= g0.ord.len(),
        ({
            let p = b0[n].parent;
            let gi = b0[p as int].parent;
            &&& link_in_tree(b0, g0, p)
            &&& (b0[p as int].left as int == n || b0[p as int].right as int == n)
            &&& b0[p as int].left != b0[p as int].right
            &&& gi != EMPTY_REF ==> {
                let u = if b0[gi as int].left == p { b0[gi as int].right } else { b0[gi as int].left };
                &&& link_in_tree(b0, g0, gi)
                &&& b0[gi as int].color == Color::Black
                &&& (b0[gi as int].left == p || b0[gi as int].right == p)
                &&& b0[gi as int].left != b0[gi as int].right
                &&& u != EMPTY_REF ==> link_in_tree(b0, g0, u) && u as int != n && u != p
                &&& range_len(g0, gi as int) > range_len(g0, n)
                &&& gi as int != n && p != gi
                &&& b0[gi as int].parent != EMPTY_REF ==> link_in_tree(b0, g0, b0[gi as int].parent)
            }
        }),
{
    reveal(sinv); reveal(cinv);
    let p = b0[n].parent;
    assert(node_ok(b0, g0, r0, n));
    assert(node_ok(b0, g0, r0, p as int));
    let gi = b0[p as int].parent;
    if gi != EMPTY_REF {
        assert(node_ok(b0, g0, r0, gi as int));
        assert(color_ok(b0, g0, gi as int, n));
        let u = if b0[gi as int].left == p { b0[gi as int].right } else { b0[gi as int].left };
        if u != EMPTY_REF { assert(node_ok(b0, g0, r0, u as int)); }
    }
}

// Case 2: parent is the root -> colour it black
pub proof fn lemma_insert_case2<K: Ord, V>(b0: Buf<K, V>, g0: G, r0: u32, n: int, b1: Buf<K, V>) -> (g1: G)
    requires
        sinv(b0, g0, r0), cinv(b0, g0, n), in_tree(b0, g0, n),
        b0[n].parent != EMPTY_REF,
        b0[n].color == Color::Red,
        b0[b0[n].parent as int].color == Color::Red,
        b0[b0[n].parent as int].parent == EMPTY_REF,
        b1 =~= b0.update(b0[n].parent as int, set_color(b0[b0[n].parent as int], Color::Black)),
    ensures
        g1 == (G { ord: g0.ord, ng: add_bh(g0.ng, b0[n].parent as int, 1) }),
        sinv(b1, g1, r0), cinv(b1, g1, -1), same_entities(b1, b0),
{
    let p = b0[n].parent as int;
    let g1 = G { ord: g0.ord, ng: add_bh(g0.ng, p, 1) };
    lemma_insert_fix_facts(b0, g0, r0, n);
    lemma_sinv_same_struct(b1, g1, b0, g0, r0);
    reveal(sinv); reveal(cinv);
    assert(node_ok(b0, g0, r0, p));
    assert(color_ok(b0, g0, p, n));
    assert forall|i: int| in_tree(b1, g1, i) implies #[trigger] color_ok(b1, g1, i, -1) by {
        assert(in_tree(b0, g0, i));
        assert(node_ok(b0, g0, r0, i));
        assert(color_ok(b0, g0, i, n));
    }
    g1
}

// Case 3: red uncle -> recolour parent, grandparent, uncle; violation moves to the grandparent
pub proof fn lemma_insert_case3<K: Ord, V>(b0: Buf<K, V>, g0: G, r0: u32, n: int, b1: Buf<K, V>) -> (g1: G)
    requires
        sinv(b0, g0, r0), cinv(b0, g0, n), in_tree(b0, g0, n),
        b0[n].parent != EMPTY_REF,
        b0[n].color == Color::Red,
        b0[b0[n].parent as int].color == Color::Red,
        b0[b0[n].parent as int].parent != EMPTY_REF,
        ({
            let p = b0[n].parent; let gi = b0[p as int].parent;
            let u = if b0[gi as int].left == p { b0[gi as int].right } else { b0[gi as int].left };
            &&& u != EMPTY_REF && b0[u as int].color == Color::Red
            &&& b1 =~= b0.update(p as int, set_color(b0[p as int], Color::Black))
                        .update(gi as int, set_color(b0[gi as int], Color::Red))
                        .update(u as int, set_color(b0[u as int], Color::Black))
        }),
    ensures
        ({
            let p = b0[n].parent; let gi = b0[p as int].parent;
            let u = if b0[gi as int].left == p { b0[gi as int].right } else { b0[gi as int].left };
            &&& g1 == (G { ord: g0.ord, ng: add_bh(add_bh(g0.ng, p as int, 1), u as int, 1) })
            &&& sinv(b1, g1, r0) && cinv(b1, g1, gi as int) && same_entities(b1, b0)
            &&& in_tree(b1, g1, gi as int)
            &&& b1[gi as int].color == Color::Red
            &&& b1[gi as int].parent == b0[gi as int].parent
            &&& range_len(g1, gi as int) > range_len(g0, n)
            &&& range_len(g1, gi as int) <= g1.ord.len()
            &&& b1[gi as int].parent != EMPTY_REF ==> link_in_tree(b1, g1, b1[gi as int].parent)
        }),
{
    let p = b0[n].parent; let gi = b0[p as int].parent;
    let u = if b0[gi as int].left == p { b0[gi as int].right } else { b0[gi as int].left };
    let g1 = G { ord: g0.ord, ng: add_bh(add_bh(g0.ng, p as int, 1), u as int, 1) };
    lemma_insert_fix_facts(b0, g0, r0, n);
    lemma_sinv_same_struct(b1, g1, b0, g0, r0);
    reveal(sinv); reveal(cinv);
    assert(node_ok(b0, g0, r0, n));
    assert(node_ok(b0, g0, r0, p as int)); assert(node_ok(b0, g0, r0, u as int)); assert(node_ok(b0, g0, r0, gi as int));
    assert(color_ok(b0, g0, p as int, n)); assert(color_ok(b0, g0, u as int, n)); assert(color_ok(b0, g0, gi as int, n));
    assert(color_ok(b1, g1, p as int, gi as int));
    assert(color_ok(b1, g1, u as int, gi as int));
    assert(color_ok(b1, g1, gi as int, gi as int));
    assert forall|i: int| in_tree(b1, g1, i) implies #[trigger] color_ok(b1, g1, i, gi as int) by {
        assert(in_tree(b0, g0, i));
        assert(node_ok(b0, g0, r0, i));
        assert(color_ok(b0, g0, i, n));
        if i != p as int && i != u as int && i != gi as int { assert(b1[i] == b0[i]); }
    }
    g1
}


// deficit form at the node n whose subtree is one black short of its ghost black height
pub open spec fn color_def<K, V>(buf: Buf<K, V>, g: G, n: int) -> bool {
    let nd = buf[n];
    &&& bh_of(g, nd.left) >= 0
    &&& bh_of(g, nd.left) == bh_of(g, nd.right)
    &&& g.ng[n].bh == bh_of(g, nd.left) + blk(nd.color) + 1
    &&& nd.color == Color::Red ==> is_blk(buf, nd.left) && is_blk(buf, nd.right)
}

#[verifier::opaque]
pub open spec fn cinv_def<K, V>(buf: Buf<K, V>, g: G, n: int) -> bool {
    &&& color_def(buf, g, n)
    &&& forall|i: int| in_tree(buf, g, i) && i != n ==> #[trigger] color_ok(buf, g, i, n)
}

// the sentinel (slot 0), if it is linked into the tree, lies inside the subtree of n
pub open spec fn nil_under(g: G, n: int) -> bool {
    0 <= g.ng[0].pos < g.ord.len() && g.ord[g.ng[0].pos] == 0u32 ==> g.ng[n].a <= g.ng[0].pos < g.ng[n].b
}


// clause G (needed by the expiring-key tree): a fix-up for a deficit at position pos(x) never moves the
// outer boundary of any node that has that position on its left (resp. right), and never changes positions
pub open spec fn same_pos(g1: G, g0: G) -> bool {
    &&& g1.ng.len() == g0.ng.len()
    &&& g1.ord == g0.ord
    &&& forall|m: int| 0 <= m < g0.ng.len() ==> (#[trigger] g1.ng[m]).pos == g0.ng[m].pos
}

pub open spec fn keeps_bounds(g1: G, g0: G, pn: int) -> bool {
    forall|m: int| 0 <= m < g0.ng.len() && 0 <= g0.ng[m].pos < g0.ord.len() && g0.ord[g0.ng[m].pos] as int == m ==> {
        &&& (g0.ng[m].a <= pn < g0.ng[m].pos ==> (#[trigger] g1.ng[m]).a == g0.ng[m].a)
        &&& (g0.ng[m].pos < pn < g0.ng[m].b ==> g1.ng[m].b == g0.ng[m].b)
    }
}



// clause G2: a fix-up for a deficit at node x never changes the range of any node inside x's subtree
pub open spec fn keeps_inside(g1: G, g0: G, x: int) -> bool {
    forall|m: int| 0 <= m < g0.ng.len() && g0.ng[x].a <= g0.ng[m].pos < g0.ng[x].b ==>
        (#[trigger] g1.ng[m]).a == g0.ng[m].a && g1.ng[m].b == g0.ng[m].b
}

pub proof fn lemma_inside_trans(g2: G, g1: G, g0: G, x: int)
    requires same_pos(g1, g0), keeps_inside(g1, g0, x), keeps_inside(g2, g1, x), 0 <= x < g0.ng.len(), g0.ng[x].a <= g0.ng[x].pos < g0.ng[x].b,
    ensures keeps_inside(g2, g0, x),
{
    assert(g1.ng[x].a == g0.ng[x].a && g1.ng[x].b == g0.ng[x].b);
    assert forall|m: int| 0 <= m < g0.ng.len() && g0.ng[x].a <= g0.ng[m].pos < g0.ng[x].b implies
        (#[trigger] g2.ng[m]).a == g0.ng[m].a && g2.ng[m].b == g0.ng[m].b by {
        assert(g1.ng[m].pos == g0.ng[m].pos);
    }
}

pub proof fn lemma_bounds_refl(g: G, pn: int)
    ensures same_pos(g, g), keeps_bounds(g, g, pn), forall|x: int| keeps_inside(g, g, x),
{
}

pub proof fn lemma_bounds_trans(g2: G, g1: G, g0: G, pn: int)
    requires same_pos(g1, g0), same_pos(g2, g1), keeps_bounds(g1, g0, pn), keeps_bounds(g2, g1, pn),
    ensures same_pos(g2, g0), keeps_bounds(g2, g0, pn),
{
    assert forall|m: int| 0 <= m < g0.ng.len() && 0 <= g0.ng[m].pos < g0.ord.len() && g0.ord[g0.ng[m].pos] as int == m implies {
        &&& (g0.ng[m].a <= pn < g0.ng[m].pos ==> (#[trigger] g2.ng[m]).a == g0.ng[m].a)
        &&& (g0.ng[m].pos < pn < g0.ng[m].b ==> g2.ng[m].b == g0.ng[m].b)
    } by {
        assert(g1.ng[m].pos == g0.ng[m].pos);
    }
}

// moving the reference point of clause G from a node n to its parent p (case 4 of the delete fix-up)
pub proof fn lemma_bounds_up<K: Ord, V>(buf: Buf<K, V>, g0: G, root: u32, n: int, g1: G, g2: G)
    requires
        sinv(buf, g0, root), in_tree(buf, g0, n), buf[n].parent != EMPTY_REF,
        same_pos(g1, g0),
        forall|m: int| 0 <= m < g0.ng.len() ==> (#[trigger] g1.ng[m]).a == g0.ng[m].a && g1.ng[m].b == g0.ng[m].b,
        same_pos(g2, g1),
        keeps_bounds(g2, g1, g1.ng[buf[n].parent as int].pos),
        keeps_inside(g2, g1, buf[n].parent as int),
    ensures
        same_pos(g2, g0), keeps_bounds(g2, g0, g0.ng[n].pos), keeps_inside(g2, g0, n),
{
    let p = buf[n].parent as int;
    let pn = g0.ng[n].pos;
    lemma_sinv_to_skip(buf, g0, root, -1);
    reveal(sinv);
    assert(node_ok(buf, g0, root, n));
    assert(node_ok(buf, g0, root, p));
    assert(g1.ng[p].pos == g0.ng[p].pos && g1.ng[p].a == g0.ng[p].a && g1.ng[p].b == g0.ng[p].b);
    assert(g2.ng[p].a == g1.ng[p].a && g2.ng[p].b == g1.ng[p].b);
    assert forall|m: int| 0 <= m < g0.ng.len() && g0.ng[n].a <= g0.ng[m].pos < g0.ng[n].b implies
        (#[trigger] g2.ng[m]).a == g0.ng[m].a && g2.ng[m].b == g0.ng[m].b by {
        assert(g1.ng[m].pos == g0.ng[m].pos && g1.ng[m].a == g0.ng[m].a && g1.ng[m].b == g0.ng[m].b);
    }
    assert forall|m: int| 0 <= m < g0.ng.len() && 0 <= g0.ng[m].pos < g0.ord.len() && g0.ord[g0.ng[m].pos] as int == m implies {
        &&& (g0.ng[m].a <= pn < g0.ng[m].pos ==> (#[trigger] g2.ng[m]).a == g0.ng[m].a)
        &&& (g0.ng[m].pos < pn < g0.ng[m].b ==> g2.ng[m].b == g0.ng[m].b)
    } by {
        assert(g1.ng[m].pos == g0.ng[m].pos && g1.ng[m].a == g0.ng[m].a && g1.ng[m].b == g0.ng[m].b);
        assert(in_tree(buf, g0, m));
        assert(node_ok(buf, g0, root, m));
        if m != p {
            if g0.ng[m].a <= pn < g0.ng[m].pos {
                let l = buf[m].left as int;
                lemma_nested(buf, g0, root, -1, l, n);
            }
            if g0.ng[m].pos < pn < g0.ng[m].b {
                let r = buf[m].right as int;
                lemma_nested(buf, g0, root, -1, r, n);
            }
        }
    }
}

pub open spec fn sibling_of<K, V>(buf: Buf<K, V>, n: int) -> u32 {
    let p = buf[n].parent;
    if buf[p as int].left as int == n { buf[p as int].right } else { buf[p as int].left }
}

pub open spec fn same_shape_at<K, V>(b1: Buf<K, V>, b0: Buf<K, V>, n: int) -> bool {
    b1[n].left == b0[n].left && b1[n].right == b0[n].right && b1[n].color == b0[n].color
}

// facts the delete fix-up needs about the neighbourhood of the deficit node n (not the root)
pub proof fn lemma_del_facts<K: Ord, V>(b0: Buf<K, V>, g0: G, r0: u32, n: int)
    requires
        sinv(b0, g0, r0), cinv_def(b0, g0, n), in_tree(b0, g0, n),
        b0[n].parent != EMPTY_REF,
    ensures
        b0.len() < EMPTY_REF,
        g0.ng.len() == b0.len(), g0.ng[n].a <= g0.ng[n].pos < g0.ng[n].b,
        0 <= range_len(g0, n) <= g0.ord.len(),
        n != r0 as int,
        ({
            let p = b0[n].parent;
            let s = sibling_of(b0, n);
            &&& link_in_tree(b0, g0, p)
            &&& (b0[p as int].left as int == n || b0[p as int].right as int == n)
            &&& b0[p as int].left != b0[p as int].right
            &&& link_in_tree(b0, g0, s)
            &&& s as int != n && s != p && p as int != n
            &&& b0[s as int].parent == p
            &&& range_len(g0, p as int) > range_len(g0, n)
            &&& range_len(g0, p as int) <= g0.ord.len()
            &&& b0[s as int].left != EMPTY_REF ==> link_in_tree(b0, g0, b0[s as int].left)
            &&& b0[s as int].right != EMPTY_REF ==> link_in_tree(b0, g0, b0[s as int].right)
            &&& b0[s as int].color == Color::Red ==> {
                    &&& b0[p as int].color == Color::Black
                    &&& b0[s as int].left != EMPTY_REF && b0[s as int].right != EMPTY_REF
                    &&& b0[b0[s as int].left as int].color == Color::Black
                    &&& b0[b0[s as int].right as int].color == Color::Black
                }
            &&& b0[p as int].parent != EMPTY_REF ==> link_in_tree(b0, g0, b0[p as int].parent)
        }),
{
    reveal(sinv); reveal(cinv_def);
    let p = b0[n].parent;
    assert(node_ok(b0, g0, r0, n));
    assert(node_ok(b0, g0, r0, p as int));
    assert(color_ok(b0, g0, p as int, n));
    let s = sibling_of(b0, n);
    assert(node_ok(b0, g0, r0, s as int));
    assert(color_ok(b0, g0, s as int, n));
    let sl = b0[s as int].left; let sr = b0[s as int].right;
    if sl != EMPTY_REF { assert(node_ok(b0, g0, r0, sl as int)); assert(color_ok(b0, g0, sl as int, n)); }
    if sr != EMPTY_REF { assert(node_ok(b0, g0, r0, sr as int)); assert(color_ok(b0, g0, sr as int, n)); }
}

// Case 1: the deficit reached the root: the whole tree is one black shorter, which is fine
pub proof fn lemma_del_case1<K: Ord, V>(b0: Buf<K, V>, g0: G, r0: u32, n: int) -> (g1: G)
    requires
        sinv(b0, g0, r0), cinv_def(b0, g0, n), in_tree(b0, g0, n), n == r0 as int,
    ensures
        same_pos(g1, g0), keeps_bounds(g1, g0, g0.ng[n].pos), keeps_inside(g1, g0, n),
        g1 == (G { ord: g0.ord, ng: add_bh(g0.ng, n, -1) }),
        sinv(b0, g1, r0), cinv(b0, g1, -1),
{
    let g1 = G { ord: g0.ord, ng: add_bh(g0.ng, n, -1) };
    lemma_sinv_same_struct(b0, g1, b0, g0, r0);
    reveal(sinv); reveal(cinv_def); reveal(cinv);
    assert(node_ok(b0, g0, r0, n));
    assert forall|i: int| in_tree(b0, g1, i) implies #[trigger] color_ok(b0, g1, i, -1) by {
        assert(in_tree(b0, g0, i));
        assert(node_ok(b0, g0, r0, i));
        if i != n { assert(color_ok(b0, g0, i, n)); }
    }
    g1
}

// Cases 3+4: black sibling with two black children: sibling turns red; a red parent turns black (case 3),
// a black parent inherits the deficit (case 4)
pub proof fn lemma_del_case34<K: Ord, V>(b0: Buf<K, V>, g0: G, r0: u32, n: int, b1: Buf<K, V>) -> (g1: G)
    requires
        sinv(b0, g0, r0), cinv_def(b0, g0, n), in_tree(b0, g0, n),
        b0[n].parent != EMPTY_REF,
        ({
            let p = b0[n].parent; let s = sibling_of(b0, n);
            &&& b0[s as int].color == Color::Black
            &&& is_blk(b0, b0[s as int].left) && is_blk(b0, b0[s as int].right)
            &&& b1 =~= b0.update(s as int, set_color(b0[s as int], Color::Red)).update(p as int, set_color(b0[p as int], Color::Black))
        }),
        nil_under(g0, n),
    ensures
        same_pos(g1, g0), keeps_bounds(g1, g0, g0.ng[n].pos), keeps_inside(g1, g0, n),
        g1.ng[b0[n].parent as int].a == g0.ng[b0[n].parent as int].a && g1.ng[b0[n].parent as int].b == g0.ng[b0[n].parent as int].b,
        same_shape_at(b1, b0, 0), same_shape_at(b1, b0, n), nil_under(g1, b0[n].parent as int),
        ({
            let p = b0[n].parent; let s = sibling_of(b0, n);
            &&& g1 == (G { ord: g0.ord, ng: add_bh(add_bh(g0.ng, s as int, -1), n, -1) })
            &&& sinv(b1, g1, r0) && same_entities(b1, b0)
            &&& b0[p as int].color == Color::Red ==> cinv(b1, g1, -1)
            &&& b0[p as int].color == Color::Black ==> cinv_def(b1, g1, p as int) && in_tree(b1, g1, p as int)
            &&& range_len(g1, p as int) > range_len(g0, n)
            &&& range_len(g1, p as int) <= g1.ord.len()
        }),
{
    let p = b0[n].parent; let s = sibling_of(b0, n);
    let g1 = G { ord: g0.ord, ng: add_bh(add_bh(g0.ng, s as int, -1), n, -1) };
    lemma_del_facts(b0, g0, r0, n);
    lemma_sinv_same_struct(b1, g1, b0, g0, r0);
    reveal(sinv); reveal(cinv_def); reveal(cinv);
    assert(node_ok(b0, g0, r0, n)); assert(node_ok(b0, g0, r0, p as int)); assert(node_ok(b0, g0, r0, s as int));
    assert(color_ok(b0, g0, p as int, n)); assert(color_ok(b0, g0, s as int, n));
    let gp = b0[p as int].parent;
    if gp != EMPTY_REF { assert(node_ok(b0, g0, r0, gp as int)); assert(color_ok(b0, g0, gp as int, n)); }
    if b0[p as int].color == Color::Red {
        assert(color_ok(b1, g1, n, -1));
        assert(color_ok(b1, g1, s as int, -1));
        assert(color_ok(b1, g1, p as int, -1));
        assert forall|i: int| in_tree(b1, g1, i) implies #[trigger] color_ok(b1, g1, i, -1) by {
            assert(in_tree(b0, g0, i));
            assert(node_ok(b0, g0, r0, i));
            if i != n { assert(color_ok(b0, g0, i, n)); }
            if i != n && i != p as int && i != s as int { assert(b1[i] == b0[i]); }
        }
    } else {
        assert(color_ok(b1, g1, n, p as int));
        assert(color_ok(b1, g1, s as int, p as int));
        assert(color_def(b1, g1, p as int));
        assert forall|i: int| in_tree(b1, g1, i) && i != p as int implies #[trigger] color_ok(b1, g1, i, p as int) by {
            assert(in_tree(b0, g0, i));
            assert(node_ok(b0, g0, r0, i));
            if i != n { assert(color_ok(b0, g0, i, n)); }
            if i != n && i != p as int && i != s as int { assert(b1[i] == b0[i]); }
        }
    }
    g1
}


// ---------------------------------------------------------------------------------------------
// removal surgery on the ghost order

#[verifier::opaque]
pub open spec fn sorted_skip<K: Ord, V>(buf: Buf<K, V>, g: G, skip: int) -> bool {
    forall|q1: int, q2: int| 0 <= q1 < q2 < g.ord.len() && g.ord[q1] != 0u32 && g.ord[q2] != 0u32 && q1 != skip && q2 != skip
        ==> key_lt(#[trigger] buf[g.ord[q1] as int].entity.key, #[trigger] buf[g.ord[q2] as int].entity.key)
}

// sinv, except that the key at position `skip` is not required to be in order
#[verifier::opaque]
pub open spec fn sinv_skip<K: Ord, V>(buf: Buf<K, V>, g: G, root: u32, skip: int) -> bool {
    &&& g.ng.len() == buf.len()
    &&& 1 <= buf.len() < EMPTY_REF
    &&& forall|q: int| 0 <= q < g.ord.len() ==> 0 <= (#[trigger] g.ord[q]) as int && (g.ord[q] as int) < buf.len() && g.ng[g.ord[q] as int].pos == q
    &&& forall|i: int| in_tree(buf, g, i) ==> #[trigger] node_ok(buf, g, root, i)
    &&& if g.ord.len() == 0 { root == EMPTY_REF } else {
            &&& link_in_tree(buf, g, root)
            &&& g.ng[root as int].a == 0 && g.ng[root as int].b == g.ord.len()
            &&& buf[root as int].parent == EMPTY_REF
        }
    &&& sorted_skip(buf, g, skip)
}


pub proof fn lemma_links_skip<K: Ord, V>(buf: Buf<K, V>, g: G, root: u32, skip: int, i: int)
    requires sinv_skip(buf, g, root, skip), in_tree(buf, g, i),
    ensures
        node_ok(buf, g, root, i),
        buf.len() < EMPTY_REF, g.ng.len() == buf.len(),
{
    reveal(sinv_skip);
    assert(node_ok(buf, g, root, i));
}


// a leaf in a tree of at least two entries is not the root
pub proof fn lemma_leaf_not_root<K: Ord, V>(buf: Buf<K, V>, g: G, root: u32, i: int)
    requires sinv(buf, g, root), in_tree(buf, g, i), buf[i].left == EMPTY_REF, buf[i].right == EMPTY_REF, g.ord.len() >= 2,
    ensures
        buf[i].parent != EMPTY_REF, link_in_tree(buf, g, buf[i].parent),
        buf[buf[i].parent as int].left as int == i || buf[buf[i].parent as int].right as int == i,
        (buf[i].parent as int) < buf.len(),
{
    reveal(sinv);
    assert(node_ok(buf, g, root, i));
    if buf[i].parent == EMPTY_REF { assert(node_ok(buf, g, root, root as int)); }
}

pub proof fn lemma_sinv_to_skip<K: Ord, V>(buf: Buf<K, V>, g: G, root: u32, skip: int)
    requires sinv(buf, g, root),
    ensures sinv_skip(buf, g, root, skip),
{
    reveal(sinv); reveal(sinv_skip); reveal(sorted); reveal(sorted_skip);
}

pub open spec fn sh(x: int, q: int) -> int { if x > q { x - 1 } else { x } }

pub open spec fn shift_ng(ng: Seq<NG>, q: int, d: int) -> Seq<NG> {
    Seq::new(ng.len(), |i: int| if i == d { NG { pos: -1, ..ng[i] } } else {
        NG { pos: sh(ng[i].pos, q), a: sh(ng[i].a, q), b: sh(ng[i].b, q), bh: ng[i].bh }
    })
}

pub open spec fn removed_g(g0: G, d: int) -> G {
    G { ord: g0.ord.remove(g0.ng[d].pos), ng: shift_ng(g0.ng, g0.ng[d].pos, d) }
}

pub open spec fn unlink_child<K, V>(nd: Node<K, V>, child: int, repl: u32) -> Node<K, V> {
    if nd.left as int == child { Node { left: repl, ..nd } } else { Node { right: repl, ..nd } }
}

pub open spec fn same_membership<K, V>(b1: Buf<K, V>, g1: G, b0: Buf<K, V>, g0: G, d: int) -> bool {
    &&& !in_tree(b1, g1, d)
    &&& forall|i: int| i != d ==> (#[trigger] in_tree(b1, g1, i) == in_tree(b0, g0, i))
}

// a red leaf (a real red leaf, or the red sentinel after the fix-up) is unlinked from its parent
#[verifier::rlimit(300)]
pub proof fn lemma_remove_red_leaf<K: Ord, V>(b0: Buf<K, V>, g0: G, r0: u32, d: int, b1: Buf<K, V>) -> (g1: G)
    requires
        sinv_skip(b0, g0, r0, g0.ng[d].pos), cinv(b0, g0, -1), in_tree(b0, g0, d),
        b0[d].left == EMPTY_REF, b0[d].right == EMPTY_REF, b0[d].color == Color::Red,
        b0[d].parent != EMPTY_REF,
        b1 =~= b0.update(b0[d].parent as int, unlink_child(b0[b0[d].parent as int], d, EMPTY_REF)),
    ensures
        g1 == removed_g(g0, d),
        sinv(b1, g1, r0), cinv(b1, g1, -1),
        same_membership(b1, g1, b0, g0, d),
        same_entities(b1, b0),
{
    let q = g0.ng[d].pos;
    let p = b0[d].parent as int;
    let g1 = removed_g(g0, d);
    reveal(sinv_skip); reveal(sinv); reveal(cinv);
    assert(node_ok(b0, g0, r0, d));
    assert(node_ok(b0, g0, r0, p));
    assert(color_ok(b0, g0, d, -1));
    assert(color_ok(b0, g0, p, -1));
    assert forall|j: int| 0 <= j < g1.ord.len() implies 0 <= (#[trigger] g1.ord[j]) as int && (g1.ord[j] as int) < b1.len() && g1.ng[g1.ord[j] as int].pos == j by {
        if j < q { assert(g1.ord[j] == g0.ord[j]); } else { assert(g1.ord[j] == g0.ord[j + 1]); }
    }
    assert forall|i: int| i != d implies (#[trigger] in_tree(b1, g1, i) == in_tree(b0, g0, i)) by {
        if in_tree(b0, g0, i) {
            let pi = g0.ng[i].pos;
            if pi < q { assert(g1.ord[pi] == g0.ord[pi]); } else { assert(g1.ord[pi - 1] == g0.ord[pi]); }
        }
        if in_tree(b1, g1, i) {
            let pj = g1.ng[i].pos;
            if pj < q { assert(g1.ord[pj] == g0.ord[pj]); } else { assert(g1.ord[pj] == g0.ord[pj + 1]); }
        }
    }
    assert(sorted(b1, g1)) by {
        reveal(sorted); reveal(sorted_skip);
        assert forall|q1: int, q2: int| 0 <= q1 < q2 < g1.ord.len() && g1.ord[q1] != 0u32 && g1.ord[q2] != 0u32
            implies key_lt(#[trigger] b1[g1.ord[q1] as int].entity.key, #[trigger] b1[g1.ord[q2] as int].entity.key) by {
            let o1 = if q1 < q { q1 } else { q1 + 1 };
            let o2 = if q2 < q { q2 } else { q2 + 1 };
            assert(g1.ord[q1] == g0.ord[o1]);
            assert(g1.ord[q2] == g0.ord[o2]);
            assert(key_lt(b0[g0.ord[o1] as int].entity.key, b0[g0.ord[o2] as int].entity.key));
        }
    }
    assert(g0.ord[q] as int == d);
    assert forall|i: int| in_tree(b1, g1, i) implies #[trigger] node_ok(b1, g1, r0, i) by {
        assert(in_tree(b0, g0, i));
        assert(node_ok(b0, g0, r0, i));
        assert(g0.ng[i].pos != q);
        if i != p { assert(b1[i] == b0[i]); }
        let l = b0[i].left; let r = b0[i].right; let pp = b0[i].parent;
        if l != EMPTY_REF { assert(node_ok(b0, g0, r0, l as int)); assert(g0.ord[g0.ng[l as int].pos] as int == l as int); }
        if r != EMPTY_REF { assert(node_ok(b0, g0, r0, r as int)); assert(g0.ord[g0.ng[r as int].pos] as int == r as int); }
        if pp != EMPTY_REF { assert(node_ok(b0, g0, r0, pp as int)); assert(in_tree(b1, g1, pp as int) == in_tree(b0, g0, pp as int)); }
        if l != EMPTY_REF && l as int != d { assert(in_tree(b1, g1, l as int) == in_tree(b0, g0, l as int)); }
        if r != EMPTY_REF && r as int != d { assert(in_tree(b1, g1, r as int) == in_tree(b0, g0, r as int)); }
    }
    assert forall|i: int| in_tree(b1, g1, i) implies #[trigger] color_ok(b1, g1, i, -1) by {
        assert(in_tree(b0, g0, i));
        assert(node_ok(b0, g0, r0, i));
        assert(color_ok(b0, g0, i, -1));
        if i != p { assert(b1[i] == b0[i]); }
    }
    g1
}


// the last entry (a childless root) is removed: the tree becomes empty
pub proof fn lemma_remove_root_leaf<K: Ord, V>(b0: Buf<K, V>, g0: G, r0: u32, d: int) -> (g1: G)
    requires
        sinv_skip(b0, g0, r0, g0.ng[d].pos), in_tree(b0, g0, d),
        b0[d].left == EMPTY_REF, b0[d].right == EMPTY_REF, b0[d].parent == EMPTY_REF,
    ensures
        g1 == removed_g(g0, d),
        g1.ord.len() == 0,
        sinv(b0, g1, EMPTY_REF), cinv(b0, g1, -1),
        same_membership(b0, g1, b0, g0, d),
{
    let g1 = removed_g(g0, d);
    reveal(sinv_skip); reveal(sinv); reveal(cinv);
    assert(node_ok(b0, g0, r0, d));
    assert(sorted(b0, g1)) by { reveal(sorted); }
    assert forall|i: int| i != d implies (#[trigger] in_tree(b0, g1, i) == in_tree(b0, g0, i)) by {
        if in_tree(b0, g0, i) { assert(node_ok(b0, g0, r0, i)); assert(g0.ord[g0.ng[i].pos] as int == i); }
    }
    g1
}

// the overwritten key of a two-children node: the successor's entity is copied one position down the order
pub proof fn lemma_move_up<K: Ord, V>(b0: Buf<K, V>, g0: G, r0: u32, idx: int, succ: int, b1: Buf<K, V>)
    requires
        sinv(b0, g0, r0), cinv(b0, g0, -1), in_tree(b0, g0, idx), in_tree(b0, g0, succ),
        g0.ng[succ].pos == g0.ng[idx].pos + 1,
        idx != 0 && succ != 0,
        b1 =~= b0.update(idx, Node { entity: b0[succ].entity, ..b0[idx] }),
    ensures
        sinv_skip(b1, g0, r0, g0.ng[succ].pos), cinv(b1, g0, -1),
        forall|i: int| in_tree(b1, g0, i) == in_tree(b0, g0, i),
{
    reveal(sinv); reveal(sinv_skip); reveal(cinv);
    let q = g0.ng[idx].pos;
    assert(g0.ord[q] as int == idx);
    assert(g0.ord[q + 1] as int == succ);
    assert(sorted_skip(b1, g0, q + 1)) by {
        reveal(sorted); reveal(sorted_skip);
        assert forall|q1: int, q2: int| 0 <= q1 < q2 < g0.ord.len() && g0.ord[q1] != 0u32 && g0.ord[q2] != 0u32 && q1 != q + 1 && q2 != q + 1
            implies key_lt(#[trigger] b1[g0.ord[q1] as int].entity.key, #[trigger] b1[g0.ord[q2] as int].entity.key) by {
            let o1 = if q1 == q { q + 1 } else { q1 };
            let o2 = if q2 == q { q + 1 } else { q2 };
            assert(g0.ng[g0.ord[q1] as int].pos == q1);
            assert(g0.ng[g0.ord[q2] as int].pos == q2);
            assert(b1[g0.ord[q1] as int].entity.key == b0[g0.ord[o1] as int].entity.key);
            assert(b1[g0.ord[q2] as int].entity.key == b0[g0.ord[o2] as int].entity.key);
            assert(key_lt(b0[g0.ord[o1] as int].entity.key, b0[g0.ord[o2] as int].entity.key));
        }
    }
    assert forall|i: int| in_tree(b1, g0, i) implies #[trigger] node_ok(b1, g0, r0, i) by {
        assert(node_ok(b0, g0, r0, i));
    }
    assert forall|i: int| in_tree(b1, g0, i) implies #[trigger] color_ok(b1, g0, i, -1) by {
        assert(color_ok(b0, g0, i, -1));
    }
}


// the link surgery "d, which has at most one child c (EMPTY_REF if none), is bypassed"
pub open spec fn bypass_rel<K, V>(b1: Buf<K, V>, r1: u32, b0: Buf<K, V>, r0: u32, d: int, c: u32) -> bool {
    let p = b0[d].parent;
    &&& b1.len() == b0.len()
    &&& c != EMPTY_REF ==> b1[c as int] == (Node { parent: p, ..b0[c as int] })
    &&& p != EMPTY_REF ==> b1[p as int] == unlink_child(b0[p as int], d, c)
    &&& forall|i: int| 0 <= i < b1.len() && i != c as int && i != p as int ==> #[trigger] b1[i] == b0[i]
    &&& r1 == (if p == EMPTY_REF { c } else { r0 })
}


pub open spec fn bypass_pre<K: Ord, V>(b0: Buf<K, V>, g0: G, r0: u32, d: int, c: u32, b1: Buf<K, V>, r1: u32) -> bool {
    &&& sinv_skip(b0, g0, r0, g0.ng[d].pos) && in_tree(b0, g0, d)
    &&& (b0[d].left == EMPTY_REF || b0[d].right == EMPTY_REF)
    &&& c == (if b0[d].left != EMPTY_REF { b0[d].left } else { b0[d].right })
    &&& (c != EMPTY_REF || b0[d].parent != EMPTY_REF)
    &&& bypass_rel(b1, r1, b0, r0, d, c)
    &&& forall|i: int| i != d ==> (#[trigger] in_tree(b1, removed_g(g0, d), i) == in_tree(b0, g0, i))
    &&& !in_tree(b1, removed_g(g0, d), d)
}

pub proof fn lemma_bypass_left<K: Ord, V>(b0: Buf<K, V>, g0: G, r0: u32, d: int, c: u32, b1: Buf<K, V>, r1: u32)
    requires bypass_pre(b0, g0, r0, d, c, b1, r1),
    ensures forall|i: int| in_tree(b1, removed_g(g0, d), i) ==> #[trigger] left_ok(b1, removed_g(g0, d), i),
{
    let q = g0.ng[d].pos; let p = b0[d].parent; let g1 = removed_g(g0, d);
    reveal(sinv_skip);
    assert(node_ok(b0, g0, r0, d));
    if c != EMPTY_REF { assert(node_ok(b0, g0, r0, c as int)); }
    if p != EMPTY_REF { assert(node_ok(b0, g0, r0, p as int)); }
    assert(g0.ord[q] as int == d);
    assert forall|i: int| in_tree(b1, g1, i) implies #[trigger] left_ok(b1, g1, i) by {
        assert(in_tree(b0, g0, i));
        assert(node_ok(b0, g0, r0, i));
        assert(g0.ng[i].pos != q);
        if i != p as int && i != c as int { assert(b1[i] == b0[i]); }
        let l = b0[i].left;
        if l != EMPTY_REF {
            assert(node_ok(b0, g0, r0, l as int));
            assert(g0.ord[g0.ng[l as int].pos] as int == l as int);
            if l as int != d { assert(in_tree(b1, g1, l as int) == in_tree(b0, g0, l as int)); }
        }
    }
}

pub proof fn lemma_bypass_right<K: Ord, V>(b0: Buf<K, V>, g0: G, r0: u32, d: int, c: u32, b1: Buf<K, V>, r1: u32)
    requires bypass_pre(b0, g0, r0, d, c, b1, r1),
    ensures forall|i: int| in_tree(b1, removed_g(g0, d), i) ==> #[trigger] right_ok(b1, removed_g(g0, d), i),
{
    let q = g0.ng[d].pos; let p = b0[d].parent; let g1 = removed_g(g0, d);
    reveal(sinv_skip);
    assert(node_ok(b0, g0, r0, d));
    if c != EMPTY_REF { assert(node_ok(b0, g0, r0, c as int)); }
    if p != EMPTY_REF { assert(node_ok(b0, g0, r0, p as int)); }
    assert(g0.ord[q] as int == d);
    assert forall|i: int| in_tree(b1, g1, i) implies #[trigger] right_ok(b1, g1, i) by {
        assert(in_tree(b0, g0, i));
        assert(node_ok(b0, g0, r0, i));
        assert(g0.ng[i].pos != q);
        if i != p as int && i != c as int { assert(b1[i] == b0[i]); }
        let r = b0[i].right;
        if r != EMPTY_REF {
            assert(node_ok(b0, g0, r0, r as int));
            assert(g0.ord[g0.ng[r as int].pos] as int == r as int);
            if r as int != d { assert(in_tree(b1, g1, r as int) == in_tree(b0, g0, r as int)); }
        }
    }
}

pub proof fn lemma_bypass_parent<K: Ord, V>(b0: Buf<K, V>, g0: G, r0: u32, d: int, c: u32, b1: Buf<K, V>, r1: u32)
    requires bypass_pre(b0, g0, r0, d, c, b1, r1),
    ensures forall|i: int| in_tree(b1, removed_g(g0, d), i) ==> #[trigger] parent_ok(b1, removed_g(g0, d), r1, i),
{
    let q = g0.ng[d].pos; let p = b0[d].parent; let g1 = removed_g(g0, d);
    reveal(sinv_skip);
    assert(node_ok(b0, g0, r0, d));
    if c != EMPTY_REF { assert(node_ok(b0, g0, r0, c as int)); }
    if p != EMPTY_REF { assert(node_ok(b0, g0, r0, p as int)); }
    assert forall|i: int| in_tree(b1, g1, i) implies #[trigger] parent_ok(b1, g1, r1, i) by {
        assert(in_tree(b0, g0, i));
        assert(node_ok(b0, g0, r0, i));
        if i != p as int && i != c as int { assert(b1[i] == b0[i]); }
        let pp = b0[i].parent;
        if pp != EMPTY_REF {
            assert(node_ok(b0, g0, r0, pp as int));
            if pp as int != d { assert(in_tree(b1, g1, pp as int) == in_tree(b0, g0, pp as int)); }
        }
    }
}

// structure after bypassing d: its position is removed from the order and every range closes up
#[verifier::rlimit(200)]
pub proof fn lemma_bypass_struct<K: Ord, V>(b0: Buf<K, V>, g0: G, r0: u32, d: int, c: u32, b1: Buf<K, V>, r1: u32)
    requires
        sinv_skip(b0, g0, r0, g0.ng[d].pos), in_tree(b0, g0, d),
        b0[d].left == EMPTY_REF || b0[d].right == EMPTY_REF,
        c == (if b0[d].left != EMPTY_REF { b0[d].left } else { b0[d].right }),
        c != EMPTY_REF || b0[d].parent != EMPTY_REF,
        bypass_rel(b1, r1, b0, r0, d, c),
    ensures
        sinv(b1, removed_g(g0, d), r1),
        same_membership(b1, removed_g(g0, d), b0, g0, d),
        same_entities(b1, b0),
{
    let q = g0.ng[d].pos;
    let p = b0[d].parent;
    let g1 = removed_g(g0, d);
    reveal(sinv_skip); reveal(sinv);
    assert(node_ok(b0, g0, r0, d));
    if c != EMPTY_REF { assert(node_ok(b0, g0, r0, c as int)); }
    if p != EMPTY_REF { assert(node_ok(b0, g0, r0, p as int)); }
    assert(g0.ord[q] as int == d);
    assert forall|j: int| 0 <= j < g1.ord.len() implies 0 <= (#[trigger] g1.ord[j]) as int && (g1.ord[j] as int) < b1.len() && g1.ng[g1.ord[j] as int].pos == j by {
        if j < q { assert(g1.ord[j] == g0.ord[j]); } else { assert(g1.ord[j] == g0.ord[j + 1]); }
    }
    assert forall|i: int| i != d implies (#[trigger] in_tree(b1, g1, i) == in_tree(b0, g0, i)) by {
        if in_tree(b0, g0, i) {
            let pi = g0.ng[i].pos;
            if pi < q { assert(g1.ord[pi] == g0.ord[pi]); } else { assert(g1.ord[pi - 1] == g0.ord[pi]); }
        }
        if in_tree(b1, g1, i) {
            let pj = g1.ng[i].pos;
            if pj < q { assert(g1.ord[pj] == g0.ord[pj]); } else { assert(g1.ord[pj] == g0.ord[pj + 1]); }
        }
    }
    assert(sorted(b1, g1)) by {
        reveal(sorted); reveal(sorted_skip);
        assert forall|q1: int, q2: int| 0 <= q1 < q2 < g1.ord.len() && g1.ord[q1] != 0u32 && g1.ord[q2] != 0u32
            implies key_lt(#[trigger] b1[g1.ord[q1] as int].entity.key, #[trigger] b1[g1.ord[q2] as int].entity.key) by {
            let o1 = if q1 < q { q1 } else { q1 + 1 };
            let o2 = if q2 < q { q2 } else { q2 + 1 };
            assert(g1.ord[q1] == g0.ord[o1]);
            assert(g1.ord[q2] == g0.ord[o2]);
            assert(key_lt(b0[g0.ord[o1] as int].entity.key, b0[g0.ord[o2] as int].entity.key));
        }
    }
    if c != EMPTY_REF { assert(in_tree(b1, g1, c as int) == in_tree(b0, g0, c as int)); }
    if p != EMPTY_REF { assert(in_tree(b1, g1, p as int) == in_tree(b0, g0, p as int)); }
    lemma_bypass_left(b0, g0, r0, d, c, b1, r1);
    lemma_bypass_right(b0, g0, r0, d, c, b1, r1);
    lemma_bypass_parent(b0, g0, r0, d, c, b1, r1);
    assert forall|i: int| in_tree(b1, g1, i) implies #[trigger] node_ok(b1, g1, r1, i) by {
        assert(in_tree(b0, g0, i));
        assert(node_ok(b0, g0, r0, i));
        assert(g0.ng[i].pos != q);
        assert(range_ok(g1, i));
    }
}

// colours after splicing out a node d with exactly one child c: d is black and c a red leaf (forced by the
// colour invariant); c inherits d's ghost black height as a deficit
pub proof fn lemma_splice<K: Ord, V>(b0: Buf<K, V>, g0: G, r0: u32, d: int, b1: Buf<K, V>, r1: u32) -> (g1: G)
    requires
        sinv_skip(b0, g0, r0, g0.ng[d].pos), cinv(b0, g0, -1), in_tree(b0, g0, d),
        !in_tree(b0, g0, 0),
        (b0[d].left == EMPTY_REF) != (b0[d].right == EMPTY_REF),
        bypass_rel(b1, r1, b0, r0, d, if b0[d].left != EMPTY_REF { b0[d].left } else { b0[d].right }),
    ensures
        ({
            let c = if b0[d].left != EMPTY_REF { b0[d].left } else { b0[d].right };
            let gr = removed_g(g0, d);
            &&& g1 == (G { ord: gr.ord, ng: gr.ng.update(c as int, NG { bh: g0.ng[d].bh, ..gr.ng[c as int] }) })
            &&& sinv(b1, g1, r1) && cinv_def(b1, g1, c as int) && in_tree(b1, g1, c as int)
            &&& nil_under(g1, c as int)
            &&& !in_tree(b1, g1, 0)
        }),
        same_membership(b1, g1, b0, g0, d),
        same_entities(b1, b0),
{
    let c = if b0[d].left != EMPTY_REF { b0[d].left } else { b0[d].right };
    let p = b0[d].parent;
    let gr = removed_g(g0, d);
    let g1 = G { ord: gr.ord, ng: gr.ng.update(c as int, NG { bh: g0.ng[d].bh, ..gr.ng[c as int] }) };
    assert(link_in_tree(b0, g0, c) && c as int != d && g0.ng.len() == b0.len()) by {
        reveal(sinv_skip);
        assert(node_ok(b0, g0, r0, d));
    }
    lemma_bypass_struct(b0, g0, r0, d, c, b1, r1);
    assert(gr.ng.len() == g0.ng.len());
    lemma_sinv_same_struct(b1, g1, b1, gr, r1);
    assert forall|i: int| (#[trigger] in_tree(b1, g1, i)) == in_tree(b1, gr, i) by { }
    assert forall|i: int| i != d implies (#[trigger] in_tree(b1, g1, i) == in_tree(b0, g0, i)) by {
        assert(in_tree(b1, gr, i) == in_tree(b0, g0, i));
    }
    assert(cinv_def(b1, g1, c as int)) by {
        reveal(sinv_skip); reveal(cinv); reveal(cinv_def);
        assert(node_ok(b0, g0, r0, d));
        assert(node_ok(b0, g0, r0, c as int));
        assert(color_ok(b0, g0, d, -1));
        assert(color_ok(b0, g0, c as int, -1));
        if p != EMPTY_REF { assert(node_ok(b0, g0, r0, p as int)); assert(color_ok(b0, g0, p as int, -1)); }
        let cl = b0[c as int].left; let cr = b0[c as int].right;
        if cl != EMPTY_REF { assert(node_ok(b0, g0, r0, cl as int)); assert(color_ok(b0, g0, cl as int, -1)); }
        if cr != EMPTY_REF { assert(node_ok(b0, g0, r0, cr as int)); assert(color_ok(b0, g0, cr as int, -1)); }
        assert(color_def(b1, g1, c as int));
        assert forall|i: int| in_tree(b1, g1, i) && i != c as int implies #[trigger] color_ok(b1, g1, i, c as int) by {
            assert(in_tree(b0, g0, i));
            assert(node_ok(b0, g0, r0, i));
            assert(color_ok(b0, g0, i, -1));
            if i != p as int { assert(b1[i] == b0[i]); }
        }
    }
    assert(d != 0);
    assert(in_tree(b1, g1, 0) == in_tree(b0, g0, 0));
    assert(b1.len() > 0) by { reveal(sinv); }
    assert(!in_tree(b1, g1, 0));
    assert(nil_under(g1, c as int));
    assert(in_tree(b1, g1, c as int));
    g1
}

pub open spec fn nil_node<K, V>(old0: Node<K, V>, parent: u32) -> Node<K, V> {
    Node { parent: parent, left: EMPTY_REF, right: EMPTY_REF, color: Color::Red, entity: old0.entity }
}

// a black leaf d (not the root) is replaced by the sentinel: slot 0 takes d's position in the order and
// carries d's black height as a deficit
#[verifier::rlimit(80)]
pub proof fn lemma_nil_subst<K: Ord, V>(b0: Buf<K, V>, g0: G, r0: u32, d: int, b1: Buf<K, V>) -> (g1: G)
    requires
        sinv_skip(b0, g0, r0, g0.ng[d].pos), cinv(b0, g0, -1), in_tree(b0, g0, d),
        !in_tree(b0, g0, 0), d != 0,
        b0[d].left == EMPTY_REF, b0[d].right == EMPTY_REF, b0[d].color == Color::Black,
        b0[d].parent != EMPTY_REF,
        b1 =~= b0.update(0, nil_node(b0[0], b0[d].parent)).update(b0[d].parent as int, unlink_child(b0[b0[d].parent as int], d, 0u32)),
    ensures
        g1 == (G { ord: g0.ord.update(g0.ng[d].pos, 0u32),
                   ng: g0.ng.update(0, NG { pos: g0.ng[d].pos, a: g0.ng[d].a, b: g0.ng[d].b, bh: g0.ng[d].bh }).update(d, NG { pos: -1, ..g0.ng[d] }) }),
        g1.ord.len() >= 2,
        sinv(b1, g1, r0), cinv_def(b1, g1, 0), in_tree(b1, g1, 0), nil_under(g1, 0),
        !in_tree(b1, g1, d),
        forall|i: int| i != d && i != 0 ==> (#[trigger] in_tree(b1, g1, i) == in_tree(b0, g0, i)),
        forall|i: int| 0 < i < b1.len() ==> (#[trigger] b1[i]).entity == b0[i].entity,
        b1.len() == b0.len(),
{
    let q = g0.ng[d].pos;
    let p = b0[d].parent as int;
    let g1 = G { ord: g0.ord.update(q, 0u32),
                 ng: g0.ng.update(0, NG { pos: q, a: g0.ng[d].a, b: g0.ng[d].b, bh: g0.ng[d].bh }).update(d, NG { pos: -1, ..g0.ng[d] }) };
    reveal(sinv_skip); reveal(sinv); reveal(cinv); reveal(cinv_def);
    assert(node_ok(b0, g0, r0, d));
    assert(node_ok(b0, g0, r0, p));
    assert(color_ok(b0, g0, d, -1));
    assert(color_ok(b0, g0, p, -1));
    assert(g0.ord[g0.ng[p].pos] as int == p && g0.ng[p].pos != q);
    assert(g0.ord[q] as int == d);
    assert(p != 0) by { assert(in_tree(b0, g0, p)); }
    assert forall|i: int| i != d && i != 0 implies (#[trigger] in_tree(b1, g1, i) == in_tree(b0, g0, i)) by {
        if in_tree(b0, g0, i) { assert(g0.ord[g0.ng[i].pos] as int == i); }
    }
    assert(sorted(b1, g1)) by {
        reveal(sorted); reveal(sorted_skip);
        assert forall|q1: int, q2: int| 0 <= q1 < q2 < g1.ord.len() && g1.ord[q1] != 0u32 && g1.ord[q2] != 0u32
            implies key_lt(#[trigger] b1[g1.ord[q1] as int].entity.key, #[trigger] b1[g1.ord[q2] as int].entity.key) by {
            assert(q1 != q && q2 != q);
            assert(g1.ord[q1] == g0.ord[q1]);
            assert(g1.ord[q2] == g0.ord[q2]);
            assert(key_lt(b0[g0.ord[q1] as int].entity.key, b0[g0.ord[q2] as int].entity.key));
        }
    }
    assert(node_ok(b1, g1, r0, 0));
    assert(node_ok(b1, g1, r0, p));
    assert forall|i: int| in_tree(b1, g1, i) implies #[trigger] node_ok(b1, g1, r0, i) by {
        if i != 0 {
            assert(in_tree(b0, g0, i));
            assert(node_ok(b0, g0, r0, i));
            if i != p { assert(b1[i] == b0[i]); }
            let l = b0[i].left; let r = b0[i].right; let pp = b0[i].parent;
            if l != EMPTY_REF && l as int != d { assert(node_ok(b0, g0, r0, l as int)); assert(in_tree(b1, g1, l as int) == in_tree(b0, g0, l as int)); }
            if r != EMPTY_REF && r as int != d { assert(node_ok(b0, g0, r0, r as int)); assert(in_tree(b1, g1, r as int) == in_tree(b0, g0, r as int)); }
            if pp != EMPTY_REF { assert(node_ok(b0, g0, r0, pp as int)); assert(in_tree(b1, g1, pp as int) == in_tree(b0, g0, pp as int)); }
        }
    }
    assert(color_def(b1, g1, 0));
    assert forall|i: int| in_tree(b1, g1, i) && i != 0 implies #[trigger] color_ok(b1, g1, i, 0) by {
        assert(in_tree(b0, g0, i));
        assert(node_ok(b0, g0, r0, i));
        assert(color_ok(b0, g0, i, -1));
        if i != p { assert(b1[i] == b0[i]); }
    }
    g1
}


// ---------------------------------------------------------------------------------------------
// pool partition, abstract entry sequence, public well-formedness

pub open spec fn pinv<K, V>(buf: Buf<K, V>, g: G, unused: Seq<u32>) -> bool {
    &&& forall|k: int| 0 <= k < unused.len() ==> 1 <= (#[trigger] unused[k]) as int && (unused[k] as int) < buf.len() && !in_tree(buf, g, unused[k] as int)
    &&& forall|k1: int, k2: int| 0 <= k1 < k2 < unused.len() ==> unused[k1] != unused[k2]
    &&& forall|i: int| 1 <= i < buf.len() && !in_tree(buf, g, i) ==> #[trigger] unused.contains(i as u32)
    &&& g.ord.len() + unused.len() + (if in_tree(buf, g, 0) { 0int } else { 1int }) == buf.len()
}

pub open spec fn ents<K, V>(buf: Buf<K, V>, g: G) -> Seq<Entity<K, V>> {
    Seq::new(g.ord.len(), |q: int| buf[g.ord[q] as int].entity)
}

pub open spec fn wf<K: Ord, V>(buf: Buf<K, V>, g: G, root: u32, unused: Seq<u32>) -> bool {
    &&& sinv(buf, g, root)
    &&& cinv(buf, g, -1)
    &&& pinv(buf, g, unused)
    &&& !in_tree(buf, g, 0)
}


// summary of the state after the physical unlink (and fix-up) of slot d, relative to the state sm before it

// ghost relation between the state before the unlink of d (position qd) and the state after unlink + fix-up,
// for every surviving slot: positions close up, and the outer boundary on the far side of qd does not move
pub open spec fn au_bounds(g: G, g0: G, d: int) -> bool {
    let qd = g0.ng[d].pos;
    forall|m: int| 0 <= m < g0.ng.len() && m != d && 0 <= g0.ng[m].pos < g0.ord.len() && g0.ord[g0.ng[m].pos] as int == m ==> {
        &&& (#[trigger] g.ng[m]).pos == sh(g0.ng[m].pos, qd)
        &&& (g0.ng[m].a <= qd < g0.ng[m].pos ==> g.ng[m].a == g0.ng[m].a)
        &&& (g0.ng[m].pos < qd < g0.ng[m].b ==> g.ng[m].b == g0.ng[m].b - 1)
    }
}

pub proof fn lemma_au_shift(g0: G, d: int)
    requires 0 <= d < g0.ng.len(),
    ensures au_bounds(removed_g(g0, d), g0, d),
{
}

pub proof fn lemma_au_bh(g1: G, gr: G, g0: G, d: int, c: int, bh: int)
    requires au_bounds(gr, g0, d), 0 <= c < gr.ng.len(), g1 == (G { ord: gr.ord, ng: gr.ng.update(c, NG { bh: bh, ..gr.ng[c] }) }), gr.ng.len() == g0.ng.len(),
    ensures au_bounds(g1, g0, d),
{
}

// splice branch: removal shift, then a fix-up with reference node c (d's only child)
pub proof fn lemma_au_splice<K: Ord, V>(b0: Buf<K, V>, g0: G, r0: u32, d: int, g1: G, g4: G)
    requires
        sinv_skip(b0, g0, r0, g0.ng[d].pos), in_tree(b0, g0, d),
        (b0[d].left == EMPTY_REF) != (b0[d].right == EMPTY_REF),
        au_bounds(g1, g0, d), g1.ng.len() == g0.ng.len(),
        forall|m: int| 0 <= m < g0.ng.len() && m != d ==> (#[trigger] g1.ng[m]).a == sh(g0.ng[m].a, g0.ng[d].pos) && g1.ng[m].b == sh(g0.ng[m].b, g0.ng[d].pos),
        g1.ord == g0.ord.remove(g0.ng[d].pos),
        same_pos(g4, g1),
        keeps_bounds(g4, g1, g1.ng[(if b0[d].left != EMPTY_REF { b0[d].left } else { b0[d].right }) as int].pos),
    ensures
        au_bounds(g4, g0, d),
{
    let qd = g0.ng[d].pos;
    let c = (if b0[d].left != EMPTY_REF { b0[d].left } else { b0[d].right }) as int;
    reveal(sinv_skip);
    assert(node_ok(b0, g0, r0, d));
    assert(node_ok(b0, g0, r0, c));
    assert(g0.ord[qd] as int == d);
    assert forall|m: int| 0 <= m < g0.ng.len() && m != d && 0 <= g0.ng[m].pos < g0.ord.len() && g0.ord[g0.ng[m].pos] as int == m implies {
        &&& (#[trigger] g4.ng[m]).pos == sh(g0.ng[m].pos, qd)
        &&& (g0.ng[m].a <= qd < g0.ng[m].pos ==> g4.ng[m].a == g0.ng[m].a)
        &&& (g0.ng[m].pos < qd < g0.ng[m].b ==> g4.ng[m].b == g0.ng[m].b - 1)
    } by {
        assert(in_tree(b0, g0, m));
        assert(node_ok(b0, g0, r0, m));
        assert(g1.ng[m].pos == sh(g0.ng[m].pos, qd));
        // m is still in the order after the removal, at its shifted position
        let pm1 = g1.ng[m].pos;
        if g0.ng[m].pos < qd { assert(g1.ord[pm1] == g0.ord[g0.ng[m].pos]); } else { assert(g1.ord[pm1] == g0.ord[pm1 + 1]); }
        if g0.ng[m].a <= qd < g0.ng[m].b {
            lemma_nested(b0, g0, r0, qd, m, d);
            lemma_nested(b0, g0, r0, qd, d, c);
            if g0.ng[m].a <= qd < g0.ng[m].pos { lemma_nested(b0, g0, r0, qd, b0[m].left as int, d); }
            if g0.ng[m].pos < qd < g0.ng[m].b { lemma_nested(b0, g0, r0, qd, b0[m].right as int, d); }
        }
    }
}

// sentinel branch: slot 0 takes d's position (no shift), fix-up with reference position qd, then slot 0 is removed
pub proof fn lemma_au_nil(g0: G, d: int, g1: G, g2: G, g4: G)
    requires
        0 <= d < g0.ng.len(), d != 0, g0.ng.len() > 0,
        !(0 <= g0.ng[0].pos < g0.ord.len() && g0.ord[g0.ng[0].pos] == 0u32),
        0 <= g0.ng[d].pos < g0.ord.len(), g0.ord[g0.ng[d].pos] as int == d,
        g1 == (G { ord: g0.ord.update(g0.ng[d].pos, 0u32),
                   ng: g0.ng.update(0, NG { pos: g0.ng[d].pos, a: g0.ng[d].a, b: g0.ng[d].b, bh: g0.ng[d].bh }).update(d, NG { pos: -1, ..g0.ng[d] }) }),
        same_pos(g2, g1), keeps_bounds(g2, g1, g0.ng[d].pos),
        g4 == removed_g(g2, 0),
    ensures
        au_bounds(g4, g0, d),
{
    let qd = g0.ng[d].pos;
    assert(g2.ng[0].pos == qd);
    assert forall|m: int| 0 <= m < g0.ng.len() && m != d && 0 <= g0.ng[m].pos < g0.ord.len() && g0.ord[g0.ng[m].pos] as int == m implies {
        &&& (#[trigger] g4.ng[m]).pos == sh(g0.ng[m].pos, qd)
        &&& (g0.ng[m].a <= qd < g0.ng[m].pos ==> g4.ng[m].a == g0.ng[m].a)
        &&& (g0.ng[m].pos < qd < g0.ng[m].b ==> g4.ng[m].b == g0.ng[m].b - 1)
    } by {
        assert(m != 0);
        assert(g1.ng[m] == g0.ng[m]);
        assert(g0.ng[m].pos != qd) by { if g0.ng[m].pos == qd { assert(g0.ord[qd] as int == m); } }
        assert(g1.ord[g1.ng[m].pos] == g0.ord[g0.ng[m].pos]);
        assert(g2.ng[m].pos == g1.ng[m].pos);
    }
}

pub open spec fn after_unlink<K: Ord, V>(b: Buf<K, V>, g: G, r: u32, b0: Buf<K, V>, g0: G, d: int) -> bool {
    &&& sinv(b, g, r) && cinv(b, g, -1)
    &&& !in_tree(b, g, 0)
    &&& same_membership(b, g, b0, g0, d)
    &&& g.ord == g0.ord.remove(g0.ng[d].pos)
    &&& b.len() == b0.len()
    &&& forall|i: int| 0 < i < b.len() ==> (#[trigger] b[i]).entity == b0[i].entity
    &&& au_bounds(g, g0, d)
}


// how the state sm at the unlink point relates to the entry state of delete_index(index): either nothing
// changed and d == index, or d is the in-order successor whose entity was copied into slot index
pub open spec fn move_rel<K, V>(bm: Buf<K, V>, b0: Buf<K, V>, g0: G, index: int, d: int) -> bool {
    ||| (d == index && bm == b0)
    ||| (g0.ng[d].pos == g0.ng[index].pos + 1 && d != index && b0[index].right != EMPTY_REF && bm =~= b0.update(index, Node { entity: b0[d].entity, ..b0[index] }))
}

pub proof fn lemma_delete_finish<K: Ord, V>(b0: Buf<K, V>, g0: G, r0: u32, u0: Seq<u32>, index: int, bm: Buf<K, V>, d: int,
                                            b4: Buf<K, V>, g4: G, r4: u32, u1: Seq<u32>)
    requires
        wf(b0, g0, r0, u0), in_tree(b0, g0, index), in_tree(b0, g0, d),
        move_rel(bm, b0, g0, index, d),
        after_unlink(b4, g4, r4, bm, g0, d),
        u1 == u0.push(d as u32),
    ensures
        ({
            let p = b0[index].parent;
            p != EMPTY_REF ==> {
                &&& in_tree(b4, g4, p as int)
                &&& b0[p as int].left as int == index ==> g4.ng[p as int].a == g0.ng[p as int].a && g4.ng[p as int].pos == g0.ng[p as int].pos - 1
                &&& b0[p as int].left as int != index ==> g4.ng[p as int].b == g0.ng[p as int].b - 1 && g4.ng[p as int].pos == g0.ng[p as int].pos
            }
        }),
        wf(b4, g4, r4, u1),
        ents(b4, g4) =~= ents(b0, g0).remove(g0.ng[index].pos),
        b4.len() == b0.len(),
        forall|i: int| 0 < i < b4.len() && i != index ==> (#[trigger] b4[i]).entity == b0[i].entity,
{
    let q = g0.ng[index].pos;
    let qd = g0.ng[d].pos;
    assert(b0.len() < EMPTY_REF && g0.ng.len() == b0.len()) by { reveal(sinv); }
    assert(g0.ord[q] as int == index);
    assert(g0.ord[qd] as int == d);
    assert(d != 0 && 0 < d < b0.len());
    if b0[index].parent != EMPTY_REF {
        reveal(sinv);
        let p = b0[index].parent as int;
        assert(node_ok(b0, g0, r0, index));
        assert(node_ok(b0, g0, r0, p));
        assert(g0.ord[g0.ng[p].pos] as int == p);
        assert(p != d);
    }
    assert forall|i: int| (#[trigger] in_tree(bm, g0, i)) == in_tree(b0, g0, i) by { }
    // pool partition
    assert forall|k: int| 0 <= k < u1.len() implies 1 <= (#[trigger] u1[k]) as int && (u1[k] as int) < b4.len() && !in_tree(b4, g4, u1[k] as int) by {
        if k < u0.len() { assert(u1[k] == u0[k]); assert(!in_tree(b0, g0, u0[k] as int)); assert(u0[k] as int != d); }
    }
    assert forall|k1: int, k2: int| 0 <= k1 < k2 < u1.len() implies u1[k1] != u1[k2] by {
        if k2 == u0.len() { assert(u1[k1] == u0[k1]); assert(!in_tree(b0, g0, u0[k1] as int)); }
    }
    assert forall|i: int| 1 <= i < b4.len() && !in_tree(b4, g4, i) implies #[trigger] u1.contains(i as u32) by {
        if i == d { assert(u1[u0.len() as int] == i as u32); }
        else {
            assert(!in_tree(b0, g0, i));
            assert(u0.contains(i as u32));
            let k = choose|k: int| 0 <= k < u0.len() && u0[k] == i as u32;
            assert(u1[k] == i as u32);
        }
    }
    // abstract entries
    assert forall|j: int| 0 <= j < g4.ord.len() implies ents(b4, g4)[j] == ents(b0, g0).remove(q)[j] by {
        reveal(sinv);
        if j < qd { assert(g4.ord[j] == g0.ord[j]); } else { assert(g4.ord[j] == g0.ord[j + 1]); }
        let o = if j < qd { j } else { j + 1 };
        assert(g0.ng[g0.ord[o] as int].pos == o);
        assert(g0.ord[o] as int != 0);
    }
}

pub proof fn lemma_same_ord_membership<K: Ord, V>(b1: Buf<K, V>, g1: G, r1: u32, b0: Buf<K, V>, g0: G, r0: u32)
    requires sinv(b1, g1, r1), sinv(b0, g0, r0), g1.ord == g0.ord, b1.len() == b0.len(),
    ensures forall|i: int| (#[trigger] in_tree(b1, g1, i)) == in_tree(b0, g0, i),
{
    reveal(sinv);
    assert forall|i: int| (#[trigger] in_tree(b1, g1, i)) == in_tree(b0, g0, i) by {
        if in_tree(b1, g1, i) { assert(g0.ng[g0.ord[g1.ng[i].pos] as int].pos == g1.ng[i].pos); }
        if in_tree(b0, g0, i) { assert(g1.ng[g1.ord[g0.ng[i].pos] as int].pos == g0.ng[i].pos); }
    }
}


// ---------------------------------------------------------------------------------------------
// laws of the user's key ordering (precondition of every public operation)

pub open spec fn key_eq<K: Ord>(a: K, b: K) -> bool { a.cmp_spec(&b) == Ordering::Equal }

pub open spec fn ord_laws<K: Ord>() -> bool {
    &&& K::obeys_cmp_spec()
    &&& K::obeys_partial_cmp_spec()
    &&& forall|a: K, b: K| #[trigger] a.partial_cmp_spec(&b) == Some(a.cmp_spec(&b))
    &&& forall|a: K| #[trigger] key_eq(a, a)
    &&& forall|a: K, b: K| (#[trigger] a.cmp_spec(&b) == Ordering::Less) <==> b.cmp_spec(&a) == Ordering::Greater
    &&& forall|a: K, b: K| #[trigger] key_eq(a, b) ==> key_eq(b, a)
    &&& forall|a: K, b: K, c: K| #[trigger] key_lt(a, b) && #[trigger] key_lt(b, c) ==> key_lt(a, c)
    &&& forall|a: K, b: K, c: K| #[trigger] key_eq(a, b) && #[trigger] key_lt(b, c) ==> key_lt(a, c)
    &&& forall|a: K, b: K, c: K| #[trigger] key_lt(a, b) && #[trigger] key_eq(b, c) ==> key_lt(a, c)
}


// a key that is neither smaller nor equivalent is larger
pub proof fn lemma_key_trichotomy<K: Ord>(a: K, b: K)
    requires ord_laws::<K>(),
    ensures key_lt(a, b) || key_eq(a, b) || key_lt(b, a),
{
    let c = a.cmp_spec(&b);
    if c == Ordering::Greater {
        assert(b.cmp_spec(&a) == Ordering::Less);
    }
}

pub open spec fn key_at<K, V>(buf: Buf<K, V>, g: G, q: int) -> K { buf[g.ord[q] as int].entity.key }

// search window [wa, wb): everything left of it is smaller than the probe, everything right of it larger
pub open spec fn window<K: Ord, V>(buf: Buf<K, V>, g: G, key: K, wa: int, wb: int) -> bool {
    &&& 0 <= wa <= wb <= g.ord.len()
    &&& forall|q: int| 0 <= q < wa ==> key_lt(#[trigger] key_at(buf, g, q), key)
    &&& forall|q: int| wb <= q < g.ord.len() ==> key_lt(key, #[trigger] key_at(buf, g, q))
}

pub proof fn lemma_window_step<K: Ord, V>(buf: Buf<K, V>, g: G, root: u32, key: K, i: int)
    requires
        ord_laws::<K>(), sinv(buf, g, root), !in_tree(buf, g, 0), in_tree(buf, g, i),
        window(buf, g, key, g.ng[i].a, g.ng[i].b),
    ensures
        key_lt(key, buf[i].entity.key) ==> window(buf, g, key, g.ng[i].a, g.ng[i].pos),
        key_lt(buf[i].entity.key, key) ==> window(buf, g, key, g.ng[i].pos + 1, g.ng[i].b),
        buf[i].left != EMPTY_REF ==> in_tree(buf, g, buf[i].left as int) && g.ng[buf[i].left as int].a == g.ng[i].a && g.ng[buf[i].left as int].b == g.ng[i].pos,
        buf[i].left == EMPTY_REF ==> g.ng[i].a == g.ng[i].pos,
        buf[i].right != EMPTY_REF ==> in_tree(buf, g, buf[i].right as int) && g.ng[buf[i].right as int].a == g.ng[i].pos + 1 && g.ng[buf[i].right as int].b == g.ng[i].b,
        buf[i].right == EMPTY_REF ==> g.ng[i].pos + 1 == g.ng[i].b,
        0 <= g.ng[i].a <= g.ng[i].pos < g.ng[i].b <= g.ord.len(),
        g.ord[g.ng[i].pos] as int == i,
        key_at(buf, g, g.ng[i].pos) == buf[i].entity.key,
        buf.len() < EMPTY_REF, g.ng.len() == buf.len(),
        key_eq(buf[i].entity.key, key) || key_eq(key, buf[i].entity.key) ==> {
            &&& key_eq(key, key_at(buf, g, g.ng[i].pos))
            &&& !key_lt(key, buf[i].entity.key)
            &&& forall|q: int| g.ng[i].pos < q < g.ord.len() ==> key_lt(key, #[trigger] key_at(buf, g, q))
        },
        key_lt(buf[i].entity.key, key) ==> !key_lt(key, buf[i].entity.key),
{
    reveal(sinv); reveal(sorted);
    assert(node_ok(buf, g, root, i));
    let p = g.ng[i].pos;
    assert(key_at(buf, g, p) == buf[i].entity.key);
    if key_eq(buf[i].entity.key, key) || key_eq(key, buf[i].entity.key) {
        assert(key_eq(key, buf[i].entity.key));
        assert forall|q: int| p < q < g.ord.len() implies key_lt(key, #[trigger] key_at(buf, g, q)) by {
            assert(g.ord[q] != 0u32) by { assert(g.ng[g.ord[q] as int].pos == q); }
            assert(key_lt(buf[g.ord[p] as int].entity.key, buf[g.ord[q] as int].entity.key));
        }
    }
    if key_lt(key, buf[i].entity.key) {
        assert forall|q: int| p <= q < g.ord.len() implies key_lt(key, #[trigger] key_at(buf, g, q)) by {
            if q > p {
                assert(g.ord[q] != 0u32) by { assert(g.ng[g.ord[q] as int].pos == q); }
                assert(key_lt(buf[g.ord[p] as int].entity.key, buf[g.ord[q] as int].entity.key));
            }
        }
    }
    if key_lt(buf[i].entity.key, key) {
        assert forall|q: int| 0 <= q < p + 1 implies key_lt(#[trigger] key_at(buf, g, q), key) by {
            if q < p {
                assert(g.ord[q] != 0u32) by { assert(g.ng[g.ord[q] as int].pos == q); }
                assert(key_lt(buf[g.ord[q] as int].entity.key, buf[g.ord[p] as int].entity.key));
            }
        }
    }
}


// ---------------------------------------------------------------------------------------------
// insertion surgery on the ghost order

pub open spec fn shu(x: int, p: int, strict: bool) -> int {
    if (strict && x > p) || (!strict && x >= p) { x + 1 } else { x }
}

pub open spec fn ins_ng(ng: Seq<NG>, len1: int, p: int, as_left: bool, new: int) -> Seq<NG> {
    Seq::new(len1 as nat, |i: int|
        if i == new { NG { pos: p, a: p, b: p + 1, bh: 0 } }
        else if i < ng.len() { NG { pos: shu(ng[i].pos, p, false), a: shu(ng[i].a, p, as_left), b: shu(ng[i].b, p, as_left), bh: ng[i].bh } }
        else { NG { pos: -1, a: 0, b: 0, bh: 0 } })
}

pub open spec fn new_leaf<K, V>(parent: u32, e: Entity<K, V>) -> Node<K, V> {
    Node { parent: parent, left: EMPTY_REF, right: EMPTY_REF, color: Color::Red, entity: e }
}

pub open spec fn insert_rel<K, V>(b1: Buf<K, V>, b0: Buf<K, V>, x: int, as_left: bool, new: int, e: Entity<K, V>) -> bool {
    &&& b0.len() <= b1.len() < EMPTY_REF
    &&& 1 <= new < b1.len() && new != x
    &&& b1[new] == new_leaf(x as u32, e)
    &&& b1[x] == (if as_left { Node { left: new as u32, ..b0[x] } } else { Node { right: new as u32, ..b0[x] } })
    &&& forall|i: int| 0 <= i < b0.len() && i != x && i != new ==> #[trigger] b1[i] == b0[i]
}

pub open spec fn ins_pos(g0: G, x: int, as_left: bool) -> int { if as_left { g0.ng[x].pos } else { g0.ng[x].pos + 1 } }

#[verifier::rlimit(300)]
pub proof fn lemma_insert_leaf<K: Ord, V>(b0: Buf<K, V>, g0: G, r0: u32, x: int, as_left: bool, new: int, e: Entity<K, V>, b1: Buf<K, V>) -> (g1: G)
    requires
        ord_laws::<K>(),
        sinv(b0, g0, r0), cinv(b0, g0, -1), !in_tree(b0, g0, 0), in_tree(b0, g0, x),
        !in_tree(b0, g0, new),
        insert_rel(b1, b0, x, as_left, new, e),
        as_left ==> b0[x].left == EMPTY_REF,
        !as_left ==> b0[x].right == EMPTY_REF,
        window(b0, g0, e.key, ins_pos(g0, x, as_left), ins_pos(g0, x, as_left)),
    ensures
        g1 == (G { ord: g0.ord.insert(ins_pos(g0, x, as_left), new as u32), ng: ins_ng(g0.ng, b1.len() as int, ins_pos(g0, x, as_left), as_left, new) }),
        sinv(b1, g1, r0), cinv(b1, g1, new), in_tree(b1, g1, new), !in_tree(b1, g1, 0),
        forall|i: int| 0 <= i < b0.len() && i != new ==> (#[trigger] in_tree(b1, g1, i) == in_tree(b0, g0, i)),
        forall|i: int| b0.len() <= i && i != new ==> !(#[trigger] in_tree(b1, g1, i)),
        ents(b1, g1) =~= ents(b0, g0).insert(ins_pos(g0, x, as_left), e),
{
    let p = ins_pos(g0, x, as_left);
    let g1 = G { ord: g0.ord.insert(p, new as u32), ng: ins_ng(g0.ng, b1.len() as int, p, as_left, new) };
    reveal(sinv); reveal(cinv);
    assert(node_ok(b0, g0, r0, x));
    assert(color_ok(b0, g0, x, -1));
    assert(0 <= p <= g0.ord.len());
    assert forall|j: int| 0 <= j < g1.ord.len() implies 0 <= (#[trigger] g1.ord[j]) as int && (g1.ord[j] as int) < b1.len() && g1.ng[g1.ord[j] as int].pos == j by {
        if j < p { assert(g1.ord[j] == g0.ord[j]); } else if j > p { assert(g1.ord[j] == g0.ord[j - 1]); }
    }
    assert forall|i: int| 0 <= i < b0.len() && i != new implies (#[trigger] in_tree(b1, g1, i) == in_tree(b0, g0, i)) by {
        if in_tree(b0, g0, i) {
            let pi = g0.ng[i].pos;
            if pi < p { assert(g1.ord[pi] == g0.ord[pi]); } else { assert(g1.ord[pi + 1] == g0.ord[pi]); }
        }
        if in_tree(b1, g1, i) {
            let pj = g1.ng[i].pos;
            if pj < p { assert(g1.ord[pj] == g0.ord[pj]); } else if pj > p { assert(g1.ord[pj] == g0.ord[pj - 1]); }
        }
    }
    assert forall|i: int| b0.len() <= i && i != new implies !(#[trigger] in_tree(b1, g1, i)) by { }
    assert(sorted(b1, g1)) by {
        reveal(sorted);
        assert forall|q1: int, q2: int| 0 <= q1 < q2 < g1.ord.len() && g1.ord[q1] != 0u32 && g1.ord[q2] != 0u32
            implies key_lt(#[trigger] b1[g1.ord[q1] as int].entity.key, #[trigger] b1[g1.ord[q2] as int].entity.key) by {
            let o1 = if q1 < p { q1 } else { q1 - 1 };
            let o2 = if q2 < p { q2 } else { q2 - 1 };
            if q1 != p { assert(g1.ord[q1] == g0.ord[o1]); assert(g0.ng[g0.ord[o1] as int].pos == o1); assert(b1[g1.ord[q1] as int].entity == b0[g0.ord[o1] as int].entity); }
            if q2 != p { assert(g1.ord[q2] == g0.ord[o2]); assert(g0.ng[g0.ord[o2] as int].pos == o2); assert(b1[g1.ord[q2] as int].entity == b0[g0.ord[o2] as int].entity); }
            if q1 == p { assert(key_lt(e.key, key_at(b0, g0, o2))); }
            else if q2 == p { assert(key_lt(key_at(b0, g0, o1), e.key)); }
            else { assert(key_lt(b0[g0.ord[o1] as int].entity.key, b0[g0.ord[o2] as int].entity.key)); }
        }
    }
    assert(node_ok(b1, g1, r0, new));
    assert(node_ok(b1, g1, r0, x));
    assert forall|i: int| in_tree(b1, g1, i) implies #[trigger] node_ok(b1, g1, r0, i) by {
        if i != new {
            assert(in_tree(b0, g0, i));
            assert(node_ok(b0, g0, r0, i));
            if i != x { assert(b1[i] == b0[i]); }
            let l = b0[i].left; let r = b0[i].right; let pp = b0[i].parent;
            if l != EMPTY_REF { assert(node_ok(b0, g0, r0, l as int)); assert(in_tree(b1, g1, l as int) == in_tree(b0, g0, l as int)); }
            if r != EMPTY_REF { assert(node_ok(b0, g0, r0, r as int)); assert(in_tree(b1, g1, r as int) == in_tree(b0, g0, r as int)); }
            if pp != EMPTY_REF { assert(node_ok(b0, g0, r0, pp as int)); assert(in_tree(b1, g1, pp as int) == in_tree(b0, g0, pp as int)); }
        }
    }
    assert(color_ok(b1, g1, new, new));
    assert forall|i: int| in_tree(b1, g1, i) implies #[trigger] color_ok(b1, g1, i, new) by {
        if i != new {
            assert(in_tree(b0, g0, i));
            assert(node_ok(b0, g0, r0, i));
            assert(color_ok(b0, g0, i, -1));
            if i != x { assert(b1[i] == b0[i]); }
        }
    }
    assert forall|j: int| 0 <= j < g1.ord.len() implies ents(b1, g1)[j] == ents(b0, g0).insert(p, e)[j] by {
        if j < p { assert(g1.ord[j] == g0.ord[j]); assert(g0.ng[g0.ord[j] as int].pos == j); }
        else if j > p { assert(g1.ord[j] == g0.ord[j - 1]); assert(g0.ng[g0.ord[j - 1] as int].pos == j - 1); }
    }
    g1
}


// what taking a slot from the pool means for buffer and free list
pub open spec fn take_rel<K, V>(b1: Buf<K, V>, u1: Seq<u32>, b0: Buf<K, V>, u0: Seq<u32>, new: int) -> bool {
    &&& u0.len() > 0 ==> b1.len() == b0.len() && new == u0.last() as int && u1 == u0.drop_last()
    &&& u0.len() == 0 ==> {
            &&& b1.len() >= b0.len() + 8 && new == b0.len()
            &&& u1.len() == b1.len() - b0.len() - 1
            &&& forall|k: int| 0 <= k < u1.len() ==> #[trigger] u1[k] as int == b1.len() - 1 - k
        }
}

pub proof fn lemma_take_not_in_tree<K: Ord, V>(b0: Buf<K, V>, g0: G, r0: u32, u0: Seq<u32>, b1len: int, u1: Seq<u32>, new: int)
    requires
        wf(b0, g0, r0, u0),
        u0.len() > 0 ==> new == u0.last() as int,
        u0.len() == 0 ==> new == b0.len(),
    ensures
        !in_tree(b0, g0, new), 1 <= new,
{
    reveal(sinv);
    if u0.len() > 0 { assert(u0[u0.len() - 1] == u0.last()); }
}

pub proof fn lemma_insert_pool<K: Ord, V>(b0: Buf<K, V>, g0: G, r0: u32, u0: Seq<u32>, b1: Buf<K, V>, g1: G, u1: Seq<u32>, new: int)
    requires
        wf(b0, g0, r0, u0),
        take_rel(b1, u1, b0, u0, new),
        b1.len() < EMPTY_REF,
        in_tree(b1, g1, new), !in_tree(b1, g1, 0),
        g1.ord.len() == g0.ord.len() + 1,
        forall|i: int| 0 <= i < b0.len() && i != new ==> (#[trigger] in_tree(b1, g1, i) == in_tree(b0, g0, i)),
        forall|i: int| b0.len() <= i && i != new ==> !(#[trigger] in_tree(b1, g1, i)),
    ensures
        pinv(b1, g1, u1),
{
    if u0.len() > 0 {
        assert forall|k: int| 0 <= k < u1.len() implies 1 <= (#[trigger] u1[k]) as int && (u1[k] as int) < b1.len() && !in_tree(b1, g1, u1[k] as int) by {
            assert(u1[k] == u0[k]);
            assert(u0[k] != u0[u0.len() - 1]);
        }
        assert forall|k1: int, k2: int| 0 <= k1 < k2 < u1.len() implies u1[k1] != u1[k2] by {
            assert(u1[k1] == u0[k1] && u1[k2] == u0[k2]);
        }
        assert forall|i: int| 1 <= i < b1.len() && !in_tree(b1, g1, i) implies #[trigger] u1.contains(i as u32) by {
            assert(i != new);
            assert(in_tree(b1, g1, i) == in_tree(b0, g0, i));
            assert(!in_tree(b0, g0, i));
            assert(u0.contains(i as u32));
            let k = choose|k: int| 0 <= k < u0.len() && u0[k] == i as u32;
            assert(u0[u0.len() - 1] == u0.last());
            assert(k != u0.len() - 1);
            assert(u1[k] == i as u32);
        }
    } else {
        assert forall|i: int| 1 <= i < b0.len() implies in_tree(b0, g0, i) by {
            if !in_tree(b0, g0, i) { assert(u0.contains(i as u32)); }
        }
        assert forall|i: int| 1 <= i < b1.len() && !in_tree(b1, g1, i) implies #[trigger] u1.contains(i as u32) by {
            let k = b1.len() - 1 - i;
            assert(0 <= k < u1.len());
            assert(u1[k] == i as u32);
        }
    }
}


// ranges form a laminar family: a node m positioned inside i's range has its whole range inside i's range,
// and unless m is i itself its parent is positioned inside i's range too
pub proof fn lemma_nested<K: Ord, V>(buf: Buf<K, V>, g: G, root: u32, skip: int, i: int, m: int)
    requires
        sinv_skip(buf, g, root, skip), in_tree(buf, g, i), in_tree(buf, g, m),
        g.ng[i].a <= g.ng[m].pos < g.ng[i].b,
    ensures
        g.ng[i].a <= g.ng[m].a && g.ng[m].b <= g.ng[i].b,
        m != i ==> buf[m].parent != EMPTY_REF && g.ng[i].a <= g.ng[buf[m].parent as int].pos < g.ng[i].b,
    decreases g.ng[i].b - g.ng[i].a,
{
    reveal(sinv_skip);
    assert(node_ok(buf, g, root, i));
    assert(node_ok(buf, g, root, m));
    if m != i {
        assert(g.ord[g.ng[m].pos] as int == m && g.ord[g.ng[i].pos] as int == i);
        if g.ng[m].pos < g.ng[i].pos {
            lemma_nested(buf, g, root, skip, buf[i].left as int, m);
        } else {
            lemma_nested(buf, g, root, skip, buf[i].right as int, m);
        }
    }
}

// height of the subtree at link l, by structural recursion bounded by fuel
pub open spec fn height_f<K, V>(buf: Buf<K, V>, l: u32, fuel: nat) -> nat
    decreases fuel
{
    if l == EMPTY_REF || fuel == 0 || l as int >= buf.len() { 0 } else {
        let hl = height_f(buf, buf[l as int].left, (fuel - 1) as nat);
        let hr = height_f(buf, buf[l as int].right, (fuel - 1) as nat);
        1 + (if hl >= hr { hl } else { hr })
    }
}

pub open spec fn pow2(e: nat) -> nat decreases e { if e == 0 { 1 } else { 2 * pow2((e - 1) as nat) } }

// a subtree with black height bh has at least 2^bh - 1 entries and height at most 2*bh + [red]
pub proof fn lemma_height<K: Ord, V>(buf: Buf<K, V>, g: G, root: u32, i: int, fuel: nat)
    requires
        sinv(buf, g, root), cinv(buf, g, -1), in_tree(buf, g, i),
        fuel >= g.ng[i].b - g.ng[i].a,
    ensures
        g.ng[i].b - g.ng[i].a + 1 >= pow2(g.ng[i].bh as nat),
        height_f(buf, i as u32, fuel) <= 2 * g.ng[i].bh + (if buf[i].color == Color::Red { 1int } else { 0int }),
    decreases g.ng[i].b - g.ng[i].a,
{
    reveal(sinv); reveal(cinv);
    assert(node_ok(buf, g, root, i));
    assert(color_ok(buf, g, i, -1));
    let l = buf[i].left; let r = buf[i].right;
    if l != EMPTY_REF { assert(color_ok(buf, g, l as int, -1)); lemma_height(buf, g, root, l as int, (fuel - 1) as nat); }
    if r != EMPTY_REF { assert(color_ok(buf, g, r as int, -1)); lemma_height(buf, g, root, r as int, (fuel - 1) as nat); }
    assert(pow2(0) == 1);
    if g.ng[i].bh > 0 { assert(pow2(g.ng[i].bh as nat) == 2 * pow2((g.ng[i].bh - 1) as nat)); }
    // unfold the height of i once
    assert(fuel >= 1 && (i as u32) as int == i && i < buf.len());
    let hl = height_f(buf, l, (fuel - 1) as nat);
    let hr = height_f(buf, r, (fuel - 1) as nat);
    assert(height_f(buf, i as u32, fuel) == 1 + (if hl >= hr { hl } else { hr }));
    assert(l == EMPTY_REF ==> hl == 0);
    assert(r == EMPTY_REF ==> hr == 0);
    if l != EMPTY_REF { assert(hl <= 2 * g.ng[l as int].bh + (if buf[l as int].color == Color::Red { 1int } else { 0int })); }
    if r != EMPTY_REF { assert(hr <= 2 * g.ng[r as int].bh + (if buf[r as int].color == Color::Red { 1int } else { 0int })); }
}


// ---------------------------------------------------------------------------------------------
// expiring keys (key tree flavour of the same algorithm)

pub trait ExpiredKey: Copy + Ord {
    spec fn exp_spec(&self) -> u64;
    fn expiration(&self) -> (r: u64)
        ensures r == self.exp_spec();
}

impl<K: Copy, V: Copy> Copy for Entity<K, V> {}

pub open spec fn is_live<K: ExpiredKey, V>(e: Entity<K, V>, t: u64) -> bool { e.key.exp_spec() > t }

// the entries visible at time t, in key order
pub open spec fn live_seq<K: ExpiredKey, V>(s: Seq<Entity<K, V>>, t: u64) -> Seq<Entity<K, V>>
    decreases s.len()
{
    if s.len() == 0 { s } else {
        let r = live_seq(s.drop_last(), t);
        if is_live(s.last(), t) { r.push(s.last()) } else { r }
    }
}

// removing an entry that has expired by time t changes no view at any time t2 >= t
pub proof fn lemma_live_remove<K: ExpiredKey, V>(s: Seq<Entity<K, V>>, q: int, t: u64, t2: u64)
    requires 0 <= q < s.len(), !is_live(s[q], t), t2 >= t,
    ensures live_seq(s.remove(q), t2) == live_seq(s, t2),
    decreases s.len(),
{
    if q == s.len() - 1 {
        assert(s.remove(q) =~= s.drop_last());
    } else {
        assert(s.remove(q).drop_last() =~= s.drop_last().remove(q));
        assert(s.remove(q).last() == s.last());
        lemma_live_remove(s.drop_last(), q, t, t2);
    }
}

// value of the greatest entry with key < probe in a key-sorted sequence, or the default
pub open spec fn pred_val<K: Ord, V>(s: Seq<Entity<K, V>>, key: K, d: V) -> V
    decreases s.len()
{
    if s.len() == 0 { d } else if key_lt(s.last().key, key) { s.last().val } else { pred_val(s.drop_last(), key, d) }
}

// if position w-1 is live and below the probe and nothing from w on is below the probe, the live view's
// predecessor of the probe is the entry at w-1; if w == 0 there is none
pub proof fn lemma_pred_of_live<K: ExpiredKey, V>(s: Seq<Entity<K, V>>, t: u64, key: K, d: V, w: int)
    requires
        0 <= w <= s.len(),
        forall|q: int| w <= q < s.len() ==> !key_lt(#[trigger] s[q].key, key),
        w > 0 ==> is_live(s[w - 1], t) && key_lt(s[w - 1].key, key),
    ensures
        pred_val(live_seq(s, t), key, d) == (if w == 0 { d } else { s[w - 1].val }),
    decreases s.len(),
{
    if s.len() == 0 {
    } else if w == s.len() {
        assert(live_seq(s, t) == live_seq(s.drop_last(), t).push(s.last()));
        assert(live_seq(s, t).last() == s.last());
    } else {
        let s1 = s.drop_last();
        assert(!key_lt(s.last().key, key));
        assert forall|q: int| w <= q < s1.len() implies !key_lt(#[trigger] s1[q].key, key) by { assert(s1[q] == s[q]); }
        if w > 0 { assert(s1[w - 1] == s[w - 1]); }
        lemma_pred_of_live(s1, t, key, d, w);
        if is_live(s.last(), t) {
            let r = live_seq(s1, t);
            assert(live_seq(s, t) == r.push(s.last()));
            assert(r.push(s.last()).drop_last() =~= r);
        }
    }
}

// what lazy expiry below the anchor node n may change: only expired entries inside n's left (resp. right)
// subtree disappear; everything outside keeps its place relative to n
pub open spec fn expire_rel<K: ExpiredKey, V>(b1: Buf<K, V>, g1: G, b0: Buf<K, V>, g0: G, n: int, time: u64, left: bool) -> bool {
    let e1 = ents(b1, g1); let e0 = ents(b0, g0);
    &&& in_tree(b1, g1, n) && b1[n].entity == b0[n].entity
    &&& forall|t2: u64| t2 >= time ==> #[trigger] live_seq(e1, t2) == live_seq(e0, t2)
    &&& left ==> {
            &&& g1.ng[n].a == g0.ng[n].a
            &&& g1.ng[n].pos <= g0.ng[n].pos
            &&& e1.subrange(0, g1.ng[n].a) == e0.subrange(0, g0.ng[n].a)
            &&& e1.subrange(g1.ng[n].pos, e1.len() as int) == e0.subrange(g0.ng[n].pos, e0.len() as int)
        }
    &&& !left ==> {
            &&& g1.ng[n].pos == g0.ng[n].pos
            &&& g1.ng[n].b <= g0.ng[n].b
            &&& e1.subrange(0, g1.ng[n].pos + 1) == e0.subrange(0, g0.ng[n].pos + 1)
            &&& e1.subrange(g1.ng[n].b, e1.len() as int) == e0.subrange(g0.ng[n].b, e0.len() as int)
        }
}


// search window for "strictly less": left of it everything is below the probe, right of it nothing is
pub open spec fn window_lt<K: Ord, V>(buf: Buf<K, V>, g: G, key: K, wa: int, wb: int) -> bool {
    &&& 0 <= wa <= wb <= g.ord.len()
    &&& forall|q: int| 0 <= q < wa ==> key_lt(#[trigger] ents(buf, g)[q].key, key)
    &&& forall|q: int| wb <= q < g.ord.len() ==> !key_lt(#[trigger] ents(buf, g)[q].key, key)
}

pub proof fn lemma_window_lt_step<K: Ord, V>(buf: Buf<K, V>, g: G, root: u32, key: K, i: int)
    requires
        ord_laws::<K>(), sinv(buf, g, root), !in_tree(buf, g, 0), in_tree(buf, g, i),
        window_lt(buf, g, key, g.ng[i].a, g.ng[i].b),
    ensures
        !key_lt(buf[i].entity.key, key) ==> window_lt(buf, g, key, g.ng[i].a, g.ng[i].pos),
        key_lt(buf[i].entity.key, key) ==> window_lt(buf, g, key, g.ng[i].pos + 1, g.ng[i].b),
        0 <= g.ng[i].a <= g.ng[i].pos < g.ng[i].b <= g.ord.len(),
        ents(buf, g)[g.ng[i].pos] == buf[i].entity,
        g.ng.len() == buf.len(), buf.len() < EMPTY_REF,
{
    reveal(sinv); reveal(sorted);
    assert(node_ok(buf, g, root, i));
    let p = g.ng[i].pos;
    let e = ents(buf, g);
    assert(g.ord[p] as int == i);
    if !key_lt(buf[i].entity.key, key) {
        assert forall|q: int| p <= q < g.ord.len() implies !key_lt(#[trigger] e[q].key, key) by {
            if q > p {
                assert(g.ord[q] != 0u32) by { assert(g.ng[g.ord[q] as int].pos == q); }
                assert(key_lt(buf[g.ord[p] as int].entity.key, buf[g.ord[q] as int].entity.key));
            }
        }
    }
    if key_lt(buf[i].entity.key, key) {
        assert forall|q: int| 0 <= q < p + 1 implies key_lt(#[trigger] e[q].key, key) by {
            if q < p {
                assert(g.ord[q] != 0u32) by { assert(g.ng[g.ord[q] as int].pos == q); }
                assert(key_lt(buf[g.ord[q] as int].entity.key, buf[g.ord[p] as int].entity.key));
            }
        }
    }
}

// after lazy expiry below the anchor n the window is the (new) range of n's left / right subtree
pub proof fn lemma_window_after_expire<K: ExpiredKey, V>(b1: Buf<K, V>, g1: G, r1: u32, b0: Buf<K, V>, g0: G, r0: u32, n: int, time: u64, key: K, left: bool)
    requires
        sinv(b1, g1, r1), sinv(b0, g0, r0), in_tree(b0, g0, n),
        expire_rel(b1, g1, b0, g0, n, time, left),
        left ==> window_lt(b0, g0, key, g0.ng[n].a, g0.ng[n].pos),
        !left ==> window_lt(b0, g0, key, g0.ng[n].pos + 1, g0.ng[n].b),
    ensures
        left ==> window_lt(b1, g1, key, g1.ng[n].a, g1.ng[n].pos),
        !left ==> window_lt(b1, g1, key, g1.ng[n].pos + 1, g1.ng[n].b),
        !left ==> ents(b1, g1)[g1.ng[n].pos] == ents(b0, g0)[g0.ng[n].pos],
{
    reveal(sinv);
    assert(node_ok(b1, g1, r1, n)); assert(node_ok(b0, g0, r0, n));
    let e1 = ents(b1, g1); let e0 = ents(b0, g0);
    if left {
        let a = g1.ng[n].a; let p1 = g1.ng[n].pos; let p0 = g0.ng[n].pos;
        assert forall|q: int| 0 <= q < a implies key_lt(#[trigger] e1[q].key, key) by {
            assert(e1.subrange(0, a)[q] == e0.subrange(0, a)[q]);
        }
        assert(e1.len() - p1 == e0.len() - p0) by { assert(e1.subrange(p1, e1.len() as int).len() == e0.subrange(p0, e0.len() as int).len()); }
        assert forall|q: int| p1 <= q < e1.len() implies !key_lt(#[trigger] e1[q].key, key) by {
            assert(e1.subrange(p1, e1.len() as int)[q - p1] == e0.subrange(p0, e0.len() as int)[q - p1]);
            assert(!key_lt(e0[q - p1 + p0].key, key));
        }
    } else {
        let p = g1.ng[n].pos; let b1e = g1.ng[n].b; let b0e = g0.ng[n].b;
        assert forall|q: int| 0 <= q < p + 1 implies key_lt(#[trigger] e1[q].key, key) by {
            assert(e1.subrange(0, p + 1)[q] == e0.subrange(0, p + 1)[q]);
        }
        assert(e1.subrange(0, p + 1)[p] == e0.subrange(0, p + 1)[p]);
        assert(e1.len() - b1e == e0.len() - b0e) by { assert(e1.subrange(b1e, e1.len() as int).len() == e0.subrange(b0e, e0.len() as int).len()); }
        assert forall|q: int| b1e <= q < e1.len() implies !key_lt(#[trigger] e1[q].key, key) by {
            assert(e1.subrange(b1e, e1.len() as int)[q - b1e] == e0.subrange(b0e, e0.len() as int)[q - b1e]);
            assert(!key_lt(e0[q - b1e + b0e].key, key));
        }
    }
}


// ---------------------------------------------------------------------------------------------
// clear(): breadth-first release of every slot, using the free list itself as the queue

// P = the slots pushed so far (in order); d = how many of them have had their children pushed;
// cur_left: the left child of P[d] has already been pushed (only meaningful while P[d] is being processed)
pub open spec fn bfs_inv<K, V>(b0: Buf<K, V>, g0: G, r0: u32, p: Seq<u32>, d: int, cur_left: bool) -> bool {
    &&& 0 <= d <= p.len() && p.len() >= 1 && p[0] == r0
    &&& forall|k: int| 0 <= k < p.len() ==> in_tree(b0, g0, #[trigger] p[k] as int)
    &&& forall|k1: int, k2: int| 0 <= k1 < k2 < p.len() ==> p[k1] != p[k2]
    // every pushed slot except the root was pushed as a child of an already processed slot, or as the left child of the current one
    &&& forall|k: int| 1 <= k < p.len() ==> {
            let par = b0[#[trigger] p[k] as int].parent;
            exists|j: int| 0 <= j <= d && j < p.len() && p[j] == par && (j < d || (cur_left && b0[par as int].left == p[k]))
        }
    // processed slots have all their children pushed
    &&& forall|j: int| 0 <= j < d ==> {
            let nd = b0[#[trigger] p[j] as int];
            (nd.left == EMPTY_REF || p.contains(nd.left)) && (nd.right == EMPTY_REF || p.contains(nd.right))
        }
    &&& (cur_left && d < p.len()) ==> (b0[p[d] as int].left == EMPTY_REF || p.contains(b0[p[d] as int].left))
}

// a child of the slot being processed has not been pushed yet
pub proof fn lemma_bfs_fresh<K: Ord, V>(b0: Buf<K, V>, g0: G, r0: u32, p: Seq<u32>, d: int, cur_left: bool, c: u32)
    requires
        sinv(b0, g0, r0), bfs_inv(b0, g0, r0, p, d, cur_left), d < p.len(),
        c != EMPTY_REF,
        (!cur_left && c == b0[p[d] as int].left) || (cur_left && c == b0[p[d] as int].right),
    ensures
        !p.contains(c), in_tree(b0, g0, c as int),
{
    reveal(sinv);
    let x = p[d] as int;
    assert(node_ok(b0, g0, r0, x));
    assert(in_tree(b0, g0, c as int));
    assert(node_ok(b0, g0, r0, c as int));
    if p.contains(c) {
        let k = choose|k: int| 0 <= k < p.len() && p[k] == c;
        if k == 0 {
            assert(node_ok(b0, g0, r0, r0 as int));
        } else {
            let par = b0[p[k] as int].parent;
            let j = choose|j: int| 0 <= j <= d && j < p.len() && p[j] == par && (j < d || (cur_left && b0[par as int].left == p[k]));
            assert(par as int == x);
            assert(p[j] == p[d]);
            assert(j == d);
        }
    }
}

// when every pushed slot has been processed, the pushed slots are exactly the slots of the tree
pub proof fn lemma_bfs_complete<K: Ord, V>(b0: Buf<K, V>, g0: G, r0: u32, p: Seq<u32>, i: int)
    requires
        sinv(b0, g0, r0), bfs_inv(b0, g0, r0, p, p.len() as int, false), in_tree(b0, g0, i),
    ensures
        p.contains(i as u32),
    decreases g0.ord.len() - range_len(g0, i),
{
    reveal(sinv);
    assert(node_ok(b0, g0, r0, i));
    let par = b0[i].parent;
    if par == EMPTY_REF {
        assert(i == r0 as int);
        assert(p[0] == i as u32);
    } else {
        assert(node_ok(b0, g0, r0, par as int));
        lemma_bfs_complete(b0, g0, r0, p, par as int);
        let j = choose|j: int| 0 <= j < p.len() && p[j] == par;
        let nd = b0[p[j] as int];
        assert((nd.left == EMPTY_REF || p.contains(nd.left)) && (nd.right == EMPTY_REF || p.contains(nd.right)));
    }
}


pub proof fn lemma_bfs_left<K: Ord, V>(b0: Buf<K, V>, g0: G, r0: u32, p: Seq<u32>, d: int) -> (p1: Seq<u32>)
    requires sinv(b0, g0, r0), bfs_inv(b0, g0, r0, p, d, false), d < p.len(),
    ensures
        p1 == (if b0[p[d] as int].left != EMPTY_REF { p.push(b0[p[d] as int].left) } else { p }),
        bfs_inv(b0, g0, r0, p1, d, true),
{
    let x = p[d] as int;
    let c = b0[x].left;
    if c == EMPTY_REF {
        assert forall|k: int| 1 <= k < p.len() implies {
            let par = b0[#[trigger] p[k] as int].parent;
            exists|j: int| 0 <= j <= d && j < p.len() && p[j] == par && (j < d || (true && b0[par as int].left == p[k]))
        } by {
            let par = b0[p[k] as int].parent;
            let j = choose|j: int| 0 <= j <= d && j < p.len() && p[j] == par && (j < d || (false && b0[par as int].left == p[k]));
            assert(j < d);
        }
        p
    } else {
        lemma_bfs_fresh(b0, g0, r0, p, d, false, c);
        let p1 = p.push(c);
        assert forall|k: int| 0 <= k < p1.len() implies in_tree(b0, g0, #[trigger] p1[k] as int) by { if k < p.len() { assert(p1[k] == p[k]); } }
        assert forall|k1: int, k2: int| 0 <= k1 < k2 < p1.len() implies p1[k1] != p1[k2] by {
            if k2 < p.len() { assert(p1[k1] == p[k1] && p1[k2] == p[k2]); } else { assert(p1[k1] == p[k1]); assert(p.contains(p[k1])); }
        }
        assert forall|k: int| 1 <= k < p1.len() implies {
            let par = b0[#[trigger] p1[k] as int].parent;
            exists|j: int| 0 <= j <= d && j < p1.len() && p1[j] == par && (j < d || (true && b0[par as int].left == p1[k]))
        } by {
            if k < p.len() {
                assert(p1[k] == p[k]);
                let par = b0[p[k] as int].parent;
                let j = choose|j: int| 0 <= j <= d && j < p.len() && p[j] == par && (j < d || (false && b0[par as int].left == p[k]));
                assert(p1[j] == par && j < d);
            } else {
                reveal(sinv);
                assert(node_ok(b0, g0, r0, x));
                assert(p1[d] == p[d]);
                assert(b0[c as int].parent as int == x);
            }
        }
        assert forall|j: int| 0 <= j < d implies {
            let nd = b0[#[trigger] p1[j] as int];
            (nd.left == EMPTY_REF || p1.contains(nd.left)) && (nd.right == EMPTY_REF || p1.contains(nd.right))
        } by {
            assert(p1[j] == p[j]);
            let nd = b0[p[j] as int];
            if nd.left != EMPTY_REF { let k = choose|k: int| 0 <= k < p.len() && p[k] == nd.left; assert(p1[k] == nd.left); }
            if nd.right != EMPTY_REF { let k = choose|k: int| 0 <= k < p.len() && p[k] == nd.right; assert(p1[k] == nd.right); }
        }
        assert(p1[d] == p[d]);
        assert(p1[p.len() as int] == c);
        p1
    }
}

pub proof fn lemma_bfs_right<K: Ord, V>(b0: Buf<K, V>, g0: G, r0: u32, p: Seq<u32>, d: int) -> (p1: Seq<u32>)
    requires sinv(b0, g0, r0), bfs_inv(b0, g0, r0, p, d, true), d < p.len(),
    ensures
        p1 == (if b0[p[d] as int].right != EMPTY_REF { p.push(b0[p[d] as int].right) } else { p }),
        bfs_inv(b0, g0, r0, p1, d + 1, false),
{
    let x = p[d] as int;
    let c = b0[x].right;
    if c == EMPTY_REF {
        assert forall|k: int| 1 <= k < p.len() implies {
            let par = b0[#[trigger] p[k] as int].parent;
            exists|j: int| 0 <= j <= d + 1 && j < p.len() && p[j] == par && (j < d + 1 || (false && b0[par as int].left == p[k]))
        } by {
            let par = b0[p[k] as int].parent;
            let j = choose|j: int| 0 <= j <= d && j < p.len() && p[j] == par && (j < d || (true && b0[par as int].left == p[k]));
            assert(j < d + 1);
        }
        p
    } else {
        lemma_bfs_fresh(b0, g0, r0, p, d, true, c);
        let p1 = p.push(c);
        assert forall|k: int| 0 <= k < p1.len() implies in_tree(b0, g0, #[trigger] p1[k] as int) by { if k < p.len() { assert(p1[k] == p[k]); } }
        assert forall|k1: int, k2: int| 0 <= k1 < k2 < p1.len() implies p1[k1] != p1[k2] by {
            if k2 < p.len() { assert(p1[k1] == p[k1] && p1[k2] == p[k2]); } else { assert(p1[k1] == p[k1]); assert(p.contains(p[k1])); }
        }
        assert forall|k: int| 1 <= k < p1.len() implies {
            let par = b0[#[trigger] p1[k] as int].parent;
            exists|j: int| 0 <= j <= d + 1 && j < p1.len() && p1[j] == par && (j < d + 1 || (false && b0[par as int].left == p1[k]))
        } by {
            if k < p.len() {
                assert(p1[k] == p[k]);
                let par = b0[p[k] as int].parent;
                let j = choose|j: int| 0 <= j <= d && j < p.len() && p[j] == par && (j < d || (true && b0[par as int].left == p[k]));
                assert(p1[j] == par && j < d + 1);
            } else {
                reveal(sinv);
                assert(node_ok(b0, g0, r0, x));
                assert(p1[d] == p[d]);
                assert(b0[c as int].parent as int == x);
            }
        }
        assert forall|j: int| 0 <= j < d + 1 implies {
            let nd = b0[#[trigger] p1[j] as int];
            (nd.left == EMPTY_REF || p1.contains(nd.left)) && (nd.right == EMPTY_REF || p1.contains(nd.right))
        } by {
            assert(p1[j] == p[j]);
            let nd = b0[p[j] as int];
            if nd.left != EMPTY_REF { let k = choose|k: int| 0 <= k < p.len() && p[k] == nd.left; assert(p1[k] == nd.left); }
            if j < d { if nd.right != EMPTY_REF { let k = choose|k: int| 0 <= k < p.len() && p[k] == nd.right; assert(p1[k] == nd.right); } }
            else { assert(p1[p.len() as int] == c); }
        }
        p1
    }
}


// the state after clear: nothing in the tree, every slot of 1..len on the free list exactly once
pub proof fn lemma_clear_finish<K: Ord, V>(b0: Buf<K, V>, g0: G, r0: u32, u0: Seq<u32>, p: Seq<u32>) -> (g1: G)
    requires
        wf(b0, g0, r0, u0), r0 != EMPTY_REF,
        bfs_inv(b0, g0, r0, p, p.len() as int, false),
    ensures
        g1 == (G { ord: Seq::<u32>::empty(), ng: Seq::new(b0.len(), |i: int| NG { pos: -1, a: 0, b: 0, bh: 0 }) }),
        wf(b0, g1, EMPTY_REF, u0 + p),
        ents(b0, g1) =~= Seq::<Entity<K, V>>::empty(),
{
    let g1 = G { ord: Seq::<u32>::empty(), ng: Seq::new(b0.len(), |i: int| NG { pos: -1, a: 0, b: 0, bh: 0 }) };
    let u1 = u0 + p;
    reveal(sinv); reveal(cinv);
    assert(sorted(b0, g1)) by { reveal(sorted); }
    assert forall|i: int| !in_tree(b0, g1, i) by { }
    assert forall|i: int| in_tree(b0, g0, i) implies p.contains(i as u32) by { lemma_bfs_complete(b0, g0, r0, p, i); }
    assert forall|k: int| 0 <= k < u1.len() implies 1 <= (#[trigger] u1[k]) as int && (u1[k] as int) < b0.len() && !in_tree(b0, g1, u1[k] as int) by {
        if k < u0.len() { assert(u1[k] == u0[k]); } else { assert(u1[k] == p[k - u0.len()]); assert(in_tree(b0, g0, p[k - u0.len()] as int)); }
    }
    assert forall|k1: int, k2: int| 0 <= k1 < k2 < u1.len() implies u1[k1] != u1[k2] by {
        let n0 = u0.len() as int;
        if k2 < n0 { assert(u1[k1] == u0[k1] && u1[k2] == u0[k2]); }
        else if k1 >= n0 { assert(u1[k1] == p[k1 - n0] && u1[k2] == p[k2 - n0]); }
        else { assert(u1[k1] == u0[k1] && u1[k2] == p[k2 - n0]); assert(in_tree(b0, g0, p[k2 - n0] as int)); assert(!in_tree(b0, g0, u0[k1] as int)); }
    }
    assert forall|i: int| 1 <= i < b0.len() && !in_tree(b0, g1, i) implies #[trigger] u1.contains(i as u32) by {
        if in_tree(b0, g0, i) {
            let k = choose|k: int| 0 <= k < p.len() && p[k] == i as u32;
            assert(u1[u0.len() + k] == i as u32);
        } else {
            assert(u0.contains(i as u32));
            let k = choose|k: int| 0 <= k < u0.len() && u0[k] == i as u32;
            assert(u1[k] == i as u32);
        }
    }
    // counting: p is a duplicate-free enumeration of the tree, so |p| == |ord|
    lemma_bfs_count(b0, g0, r0, p);
    g1
}

// a duplicate-free sequence of slots that contains exactly the slots of the tree is as long as the order
pub proof fn lemma_bfs_count<K: Ord, V>(b0: Buf<K, V>, g0: G, r0: u32, p: Seq<u32>)
    requires
        sinv(b0, g0, r0), bfs_inv(b0, g0, r0, p, p.len() as int, false),
    ensures
        p.len() == g0.ord.len(),
{
    reveal(sinv);
    // both p and ord are duplicate-free and have the same elements
    assert(p.no_duplicates());
    assert(g0.ord.no_duplicates()) by {
        assert forall|q1: int, q2: int| 0 <= q1 < g0.ord.len() && 0 <= q2 < g0.ord.len() && q1 != q2 implies g0.ord[q1] != g0.ord[q2] by {
            assert(g0.ng[g0.ord[q1] as int].pos == q1 && g0.ng[g0.ord[q2] as int].pos == q2);
        }
    }
    assert forall|x: u32| p.contains(x) <==> g0.ord.contains(x) by {
        if p.contains(x) {
            let k = choose|k: int| 0 <= k < p.len() && p[k] == x;
            assert(in_tree(b0, g0, p[k] as int));
            assert(g0.ord[g0.ng[x as int].pos] == x);
        }
        if g0.ord.contains(x) {
            let q = choose|q: int| 0 <= q < g0.ord.len() && g0.ord[q] == x;
            assert(g0.ng[g0.ord[q] as int].pos == q);
            assert(in_tree(b0, g0, x as int));
            lemma_bfs_complete(b0, g0, r0, p, x as int);
        }
    }
    assert(p.to_set() =~= g0.ord.to_set());
    p.unique_seq_to_set();
    g0.ord.unique_seq_to_set();
}


// the pushed slots are distinct slots of the tree, so there are at most |ord| of them (termination of clear)
pub proof fn lemma_bfs_count_le<K: Ord, V>(b0: Buf<K, V>, g0: G, r0: u32, p: Seq<u32>, d: int, cur_left: bool)
    requires sinv(b0, g0, r0), bfs_inv(b0, g0, r0, p, d, cur_left),
    ensures p.len() <= g0.ord.len(),
{
    reveal(sinv);
    assert(p.no_duplicates());
    assert(g0.ord.no_duplicates()) by {
        assert forall|q1: int, q2: int| 0 <= q1 < g0.ord.len() && 0 <= q2 < g0.ord.len() && q1 != q2 implies g0.ord[q1] != g0.ord[q2] by {
            assert(g0.ng[g0.ord[q1] as int].pos == q1 && g0.ng[g0.ord[q2] as int].pos == q2);
        }
    }
    assert(p.to_set().subset_of(g0.ord.to_set())) by {
        assert forall|x: u32| p.to_set().contains(x) implies g0.ord.to_set().contains(x) by {
            let k = choose|k: int| 0 <= k < p.len() && p[k] == x;
            assert(in_tree(b0, g0, p[k] as int));
            assert(g0.ord[g0.ng[x as int].pos] == x);
        }
    }
    p.unique_seq_to_set();
    g0.ord.unique_seq_to_set();
    vstd::set_lib::lemma_len_subset(p.to_set(), g0.ord.to_set());
}


// ---------------------------------------------------------------------------------------------
// ordered export (key/array.rs): explicit-stack in-order traversal

pub struct StackNode {
    pub index: u32,
    pub left: u32,
    pub right: u32,
}

impl StackNode {
    fn new<K, V>(index: u32, node: &Node<K, V>) -> (r: Self)
        ensures r.index == index, r.left == node.left, r.right == node.right,
    {
        Self {
            index,
            left: node.left,
            right: node.right,
        }
    }
}

// values of the entries visible at time t, in order
pub open spec fn lv<K: ExpiredKey, V>(s: Seq<Entity<K, V>>, t: u64) -> Seq<V>
    decreases s.len()
{
    if s.len() == 0 { Seq::empty() } else {
        let r = lv(s.drop_last(), t);
        if is_live(s.last(), t) { r.push(s.last().val) } else { r }
    }
}

// a stack frame for node n: each field is either still the node's link or blanked, in the order left, index, right
pub open spec fn frame_ok<K, V>(buf: Buf<K, V>, s: StackNode, n: int) -> bool {
    &&& (s.left == EMPTY_REF || s.left == buf[n].left)
    &&& (s.index == EMPTY_REF || s.index as int == n)
    &&& (s.right == EMPTY_REF || s.right == buf[n].right)
    &&& (s.index == EMPTY_REF ==> s.left == EMPTY_REF)
    &&& (s.index != EMPTY_REF ==> s.right == buf[n].right)
}

// the next position to be emitted, as told by a frame
pub open spec fn qpos(g: G, s: StackNode, n: int) -> int {
    if s.left != EMPTY_REF { g.ng[n].a } else if s.index != EMPTY_REF { g.ng[n].pos } else if s.right != EMPTY_REF { g.ng[n].pos + 1 } else { g.ng[n].b }
}

pub open spec fn link_ok<K, V>(buf: Buf<K, V>, sp: StackNode, p: int, c: int) -> bool {
    ||| (buf[p].left as int == c && buf[p].left != EMPTY_REF && sp.left == EMPTY_REF && sp.index != EMPTY_REF)
    ||| (buf[p].right as int == c && buf[p].right != EMPTY_REF && sp.left == EMPTY_REF && sp.index == EMPTY_REF && sp.right == EMPTY_REF)
}

pub open spec fn trav_inv<K: ExpiredKey, V>(buf: Buf<K, V>, g: G, root: u32, stack: Seq<StackNode>, fr: Seq<int>, out: Seq<V>, time: u64) -> bool {
    &&& stack.len() == fr.len()
    &&& forall|k: int| 0 <= k < fr.len() ==> in_tree(buf, g, #[trigger] fr[k]) && frame_ok(buf, stack[k], fr[k])
    &&& fr.len() > 0 ==> fr[0] == root as int
    &&& forall|k: int| 0 <= k < fr.len() - 1 ==> #[trigger] link_ok(buf, stack[k], fr[k], fr[k + 1])
    &&& out == lv(ents(buf, g).subrange(0, if fr.len() > 0 { qpos(g, stack.last(), fr.last()) } else { g.ord.len() as int }), time)
}

pub open spec fn trav_q(g: G, stack: Seq<StackNode>, fr: Seq<int>) -> int {
    if fr.len() > 0 { qpos(g, stack.last(), fr.last()) } else { g.ord.len() as int }
}

// second component of the termination measure: pushes first (stack grows), pops last (stack shrinks)
pub open spec fn trav_mu(n: int, stack: Seq<StackNode>) -> int {
    if stack.len() == 0 { 0 } else {
        let s = stack.last();
        if s.left != EMPTY_REF { 2 * n + 1 - stack.len() } else if s.index != EMPTY_REF { 0 } else { stack.len() as int }
    }
}


pub open spec fn fresh_frame<K, V>(buf: Buf<K, V>, c: int) -> StackNode {
    StackNode { index: c as u32, left: buf[c].left, right: buf[c].right }
}

// descend into a pending child (left child while nothing of the top frame is done; right child after it was emitted)
pub proof fn lemma_trav_push<K: ExpiredKey, V>(buf: Buf<K, V>, g: G, root: u32, stack: Seq<StackNode>, fr: Seq<int>, out: Seq<V>, time: u64, left: bool) -> (r: (Seq<StackNode>, Seq<int>))
    requires
        sinv(buf, g, root), !in_tree(buf, g, 0), trav_inv(buf, g, root, stack, fr, out, time), fr.len() > 0,
        left ==> stack.last().left != EMPTY_REF,
        !left ==> stack.last().left == EMPTY_REF && stack.last().index == EMPTY_REF && stack.last().right != EMPTY_REF,
    ensures
        ({
            let top = stack.last(); let t = fr.len() - 1;
            let c = if left { top.left } else { top.right };
            let blanked = if left { StackNode { left: EMPTY_REF, ..top } } else { StackNode { right: EMPTY_REF, ..top } };
            &&& (c as int) < buf.len() && in_tree(buf, g, c as int)
            &&& r.0 == stack.update(t, blanked).push(fresh_frame(buf, c as int))
            &&& r.1 == fr.push(c as int)
        }),
        trav_inv(buf, g, root, r.0, r.1, out, time),
        trav_q(g, r.0, r.1) == trav_q(g, stack, fr),
        r.1.len() <= g.ord.len(),
{
    let top = stack.last(); let t = fr.len() - 1; let n = fr[t];
    let c = if left { top.left } else { top.right };
    let blanked = if left { StackNode { left: EMPTY_REF, ..top } } else { StackNode { right: EMPTY_REF, ..top } };
    let stack1 = stack.update(t, blanked).push(fresh_frame(buf, c as int));
    let fr1 = fr.push(c as int);
    reveal(sinv);
    assert(in_tree(buf, g, n) && frame_ok(buf, stack[t], n));
    assert(node_ok(buf, g, root, n));
    assert(node_ok(buf, g, root, c as int));
    assert forall|k: int| 0 <= k < fr1.len() implies in_tree(buf, g, #[trigger] fr1[k]) && frame_ok(buf, stack1[k], fr1[k]) by {
        if k < t { assert(fr1[k] == fr[k] && stack1[k] == stack[k]); }
        else if k == t { assert(fr1[k] == n && stack1[k] == blanked); }
        else { assert(fr1[k] == c as int && stack1[k] == fresh_frame(buf, c as int)); }
    }
    assert forall|k: int| 0 <= k < fr1.len() - 1 implies #[trigger] link_ok(buf, stack1[k], fr1[k], fr1[k + 1]) by {
        if k < t { assert(link_ok(buf, stack[k], fr[k], fr[k + 1])); assert(stack1[k] == stack[k] && fr1[k] == fr[k] && fr1[k + 1] == fr[k + 1]); }
        else { assert(stack1[k] == blanked && fr1[k] == n && fr1[k + 1] == c as int); }
    }
    assert(stack1.last() == fresh_frame(buf, c as int) && fr1.last() == c as int);
    assert(fr1[0] == fr[0]);
    assert(trav_inv(buf, g, root, stack1, fr1, out, time));
    lemma_trav_depth(buf, g, root, stack1, fr1, out, time, 0);
    assert(node_ok(buf, g, root, root as int));
    (stack1, fr1)
}

// frames are strictly nested: each frame's range is at least one larger than its child frame's
pub proof fn lemma_trav_nested<K: ExpiredKey, V>(buf: Buf<K, V>, g: G, root: u32, stack: Seq<StackNode>, fr: Seq<int>, out: Seq<V>, time: u64, k: int)
    requires sinv(buf, g, root), trav_inv(buf, g, root, stack, fr, out, time), 0 <= k < fr.len() - 1,
    ensures range_len(g, fr[k]) >= range_len(g, fr[k + 1]) + 1,
{
    reveal(sinv);
    assert(link_ok(buf, stack[k], fr[k], fr[k + 1]));
    assert(in_tree(buf, g, fr[k]));
    assert(node_ok(buf, g, root, fr[k]));
}

// hence the stack is never deeper than the number of entries
pub proof fn lemma_trav_depth<K: ExpiredKey, V>(buf: Buf<K, V>, g: G, root: u32, stack: Seq<StackNode>, fr: Seq<int>, out: Seq<V>, time: u64, k: int)
    requires sinv(buf, g, root), trav_inv(buf, g, root, stack, fr, out, time), 0 <= k < fr.len(),
    ensures range_len(g, fr[k]) >= fr.len() - k, k == 0 ==> fr.len() <= g.ord.len(),
    decreases fr.len() - k,
{
    reveal(sinv);
    assert(in_tree(buf, g, fr[k]));
    assert(node_ok(buf, g, root, fr[k]));
    if k < fr.len() - 1 {
        lemma_trav_nested(buf, g, root, stack, fr, out, time, k);
        lemma_trav_depth(buf, g, root, stack, fr, out, time, k + 1);
    }
    if k == 0 { assert(node_ok(buf, g, root, root as int)); }
}


// emit the top frame's own entry (its left part is done): the output grows by that entry's value if it is live
pub proof fn lemma_trav_emit<K: ExpiredKey, V>(buf: Buf<K, V>, g: G, root: u32, stack: Seq<StackNode>, fr: Seq<int>, out: Seq<V>, time: u64) -> (r: (Seq<StackNode>, Seq<V>))
    requires
        sinv(buf, g, root), !in_tree(buf, g, 0), trav_inv(buf, g, root, stack, fr, out, time), fr.len() > 0,
        stack.last().left == EMPTY_REF, stack.last().index != EMPTY_REF,
    ensures
        ({
            let top = stack.last(); let t = fr.len() - 1; let n = fr[t];
            &&& top.index as int == n && n < buf.len()
            &&& r.0 == stack.update(t, StackNode { index: EMPTY_REF, ..top })
            &&& r.1 == (if is_live(buf[n].entity, time) { out.push(buf[n].entity.val) } else { out })
        }),
        trav_inv(buf, g, root, r.0, fr, r.1, time),
        trav_q(g, r.0, fr) == trav_q(g, stack, fr) + 1,
        trav_q(g, stack, fr) < g.ord.len(),
{
    let top = stack.last(); let t = fr.len() - 1; let n = fr[t];
    let stack1 = stack.update(t, StackNode { index: EMPTY_REF, ..top });
    let out1 = if is_live(buf[n].entity, time) { out.push(buf[n].entity.val) } else { out };
    reveal(sinv);
    assert(in_tree(buf, g, n) && frame_ok(buf, stack[t], n));
    assert(node_ok(buf, g, root, n));
    let q = g.ng[n].pos;
    let e = ents(buf, g);
    assert(g.ord[q] as int == n);
    assert(e[q] == buf[n].entity);
    assert(e.subrange(0, q + 1).drop_last() =~= e.subrange(0, q));
    assert(e.subrange(0, q + 1).last() == e[q]);
    assert forall|k: int| 0 <= k < fr.len() implies in_tree(buf, g, #[trigger] fr[k]) && frame_ok(buf, stack1[k], fr[k]) by {
        if k < t { assert(stack1[k] == stack[k]); }
    }
    assert forall|k: int| 0 <= k < fr.len() - 1 implies #[trigger] link_ok(buf, stack1[k], fr[k], fr[k + 1]) by {
        assert(link_ok(buf, stack[k], fr[k], fr[k + 1])); assert(stack1[k] == stack[k]);
    }
    assert(stack1.last() == (StackNode { index: EMPTY_REF, ..top }));
    (stack1, out1)
}

// the top frame is finished: drop it; the parent frame tells the same next position
pub proof fn lemma_trav_pop<K: ExpiredKey, V>(buf: Buf<K, V>, g: G, root: u32, stack: Seq<StackNode>, fr: Seq<int>, out: Seq<V>, time: u64)
    requires
        sinv(buf, g, root), !in_tree(buf, g, 0), trav_inv(buf, g, root, stack, fr, out, time), fr.len() > 0,
        stack.last().left == EMPTY_REF, stack.last().index == EMPTY_REF, stack.last().right == EMPTY_REF,
    ensures
        trav_inv(buf, g, root, stack.drop_last(), fr.drop_last(), out, time),
        trav_q(g, stack.drop_last(), fr.drop_last()) == trav_q(g, stack, fr),
{
    let t = fr.len() - 1; let n = fr[t];
    let stack1 = stack.drop_last(); let fr1 = fr.drop_last();
    reveal(sinv);
    assert(in_tree(buf, g, n) && frame_ok(buf, stack[t], n));
    assert(node_ok(buf, g, root, n));
    if t > 0 {
        let p = fr[t - 1];
        let k0 = t - 1;
        assert(link_ok(buf, stack[k0], fr[k0], fr[k0 + 1]));
        assert(link_ok(buf, stack[t - 1], p, n));
        assert(in_tree(buf, g, p) && frame_ok(buf, stack[t - 1], p));
        assert(node_ok(buf, g, root, p));
        assert(stack1.last() == stack[t - 1] && fr1.last() == p);
    } else {
        assert(node_ok(buf, g, root, root as int));
    }
    assert forall|k: int| 0 <= k < fr1.len() implies in_tree(buf, g, #[trigger] fr1[k]) && frame_ok(buf, stack1[k], fr1[k]) by {
        assert(fr1[k] == fr[k] && stack1[k] == stack[k]);
    }
    assert forall|k: int| 0 <= k < fr1.len() - 1 implies #[trigger] link_ok(buf, stack1[k], fr1[k], fr1[k + 1]) by {
        assert(link_ok(buf, stack[k], fr[k], fr[k + 1])); assert(stack1[k] == stack[k] && fr1[k] == fr[k] && fr1[k + 1] == fr[k + 1]);
    }
}

// exact effect of rotate_left(x) on links, root and ghost ranges
pub open spec fn rot_left_rel<K, V>(b1: Buf<K, V>, g1: G, r1: u32, b0: Buf<K, V>, g0: G, r0: u32, x: int) -> bool {
    let y = b0[x].right;
    let c = b0[y as int].left;
    let p = b0[x].parent;
    &&& b1.len() == b0.len()
    &&& b1[x] == (Node { parent: y, right: c, ..b0[x] })
    &&& b1[y as int] == (Node { parent: p, left: x as u32, ..b0[y as int] })
    &&& c != EMPTY_REF ==> b1[c as int] == (Node { parent: x as u32, ..b0[c as int] })
    &&& p != EMPTY_REF ==> b1[p as int] == (if b0[p as int].left as int == x { Node { left: y, ..b0[p as int] } } else { Node { right: y, ..b0[p as int] } })
    &&& forall|i: int| 0 <= i < b1.len() && i != x && i != y as int && i != c as int && i != p as int ==> #[trigger] b1[i] == b0[i]
    &&& r1 == (if p == EMPTY_REF { y } else { r0 })
    &&& g1.ord == g0.ord
    &&& g1.ng == g0.ng
            .update(x, NG { b: g0.ng[y as int].pos, ..g0.ng[x] })
            .update(y as int, NG { a: g0.ng[x].a, ..g0.ng[y as int] })
}

pub proof fn lemma_links<K: Ord, V>(buf: Buf<K, V>, g: G, root: u32, i: int)
    requires sinv(buf, g, root), in_tree(buf, g, i),
    ensures
        node_ok(buf, g, root, i),
        buf[i].left == EMPTY_REF || link_in_tree(buf, g, buf[i].left),
        buf[i].right == EMPTY_REF || link_in_tree(buf, g, buf[i].right),
        buf[i].parent == EMPTY_REF || link_in_tree(buf, g, buf[i].parent),
        buf.len() < EMPTY_REF,
{
    reveal(sinv);
    assert(node_ok(buf, g, root, i));
}

pub proof fn lemma_rot_left<K: Ord, V>(b1: Buf<K, V>, g1: G, r1: u32, b0: Buf<K, V>, g0: G, r0: u32, x: int)
    requires
        sinv(b0, g0, r0), in_tree(b0, g0, x), b0[x].right != EMPTY_REF,
        rot_left_rel(b1, g1, r1, b0, g0, r0, x),
    ensures
        sinv(b1, g1, r1),
        same_payload(b1, b0),
{
    reveal(sinv);
    let y = b0[x].right;
    let c = b0[y as int].left;
    let p = b0[x].parent;
    assert(node_ok(b0, g0, r0, x));
    assert(node_ok(b0, g0, r0, y as int));
    if c != EMPTY_REF { assert(node_ok(b0, g0, r0, c as int)); }
    if p != EMPTY_REF { assert(node_ok(b0, g0, r0, p as int)); }
    assert(same_payload(b1, b0));
    assert(sorted(b1, g1)) by { reveal(sorted); }
    assert(node_ok(b1, g1, r1, x));
    assert(node_ok(b1, g1, r1, y as int));
    if c != EMPTY_REF { assert(node_ok(b1, g1, r1, c as int)); }
    if p != EMPTY_REF { assert(node_ok(b1, g1, r1, p as int)); }
    assert forall|i: int| in_tree(b1, g1, i) implies #[trigger] node_ok(b1, g1, r1, i) by {
        assert(in_tree(b0, g0, i));
        assert(node_ok(b0, g0, r0, i));
        if i != x && i != y as int && i != c as int && i != p as int {
            assert(b1[i] == b0[i]);
        }
    }
}


// exact effect of rotate_right(x) on links, root and ghost ranges
pub open spec fn rot_right_rel<K, V>(b1: Buf<K, V>, g1: G, r1: u32, b0: Buf<K, V>, g0: G, r0: u32, x: int) -> bool {
    let y = b0[x].left;
    let c = b0[y as int].right;
    let p = b0[x].parent;
    &&& b1.len() == b0.len()
    &&& b1[x] == (Node { parent: y, left: c, ..b0[x] })
    &&& b1[y as int] == (Node { parent: p, right: x as u32, ..b0[y as int] })
    &&& c != EMPTY_REF ==> b1[c as int] == (Node { parent: x as u32, ..b0[c as int] })
    &&& p != EMPTY_REF ==> b1[p as int] == (if b0[p as int].left as int == x { Node { left: y, ..b0[p as int] } } else { Node { right: y, ..b0[p as int] } })
    &&& forall|i: int| 0 <= i < b1.len() && i != x && i != y as int && i != c as int && i != p as int ==> #[trigger] b1[i] == b0[i]
    &&& r1 == (if p == EMPTY_REF { y } else { r0 })
    &&& g1.ord == g0.ord
    &&& g1.ng == g0.ng
            .update(x, NG { a: g0.ng[y as int].pos + 1, ..g0.ng[x] })
            .update(y as int, NG { b: g0.ng[x].b, ..g0.ng[y as int] })
}

pub proof fn lemma_rot_right<K: Ord, V>(b1: Buf<K, V>, g1: G, r1: u32, b0: Buf<K, V>, g0: G, r0: u32, x: int)
    requires
        sinv(b0, g0, r0), in_tree(b0, g0, x), b0[x].left != EMPTY_REF,
        rot_right_rel(b1, g1, r1, b0, g0, r0, x),
    ensures
        sinv(b1, g1, r1),
        same_payload(b1, b0),
{
    reveal(sinv);
    let y = b0[x].left;
    let c = b0[y as int].right;
    let p = b0[x].parent;
    assert(node_ok(b0, g0, r0, x));
    assert(node_ok(b0, g0, r0, y as int));
    if c != EMPTY_REF { assert(node_ok(b0, g0, r0, c as int)); }
    if p != EMPTY_REF { assert(node_ok(b0, g0, r0, p as int)); }
    assert(same_payload(b1, b0));
    assert(sorted(b1, g1)) by { reveal(sorted); }
    assert(node_ok(b1, g1, r1, x));
    assert(node_ok(b1, g1, r1, y as int));
    if c != EMPTY_REF { assert(node_ok(b1, g1, r1, c as int)); }
    if p != EMPTY_REF { assert(node_ok(b1, g1, r1, p as int)); }
    assert forall|i: int| in_tree(b1, g1, i) implies #[trigger] node_ok(b1, g1, r1, i) by {
        assert(in_tree(b0, g0, i));
        assert(node_ok(b0, g0, r0, i));
        if i != x && i != y as int && i != c as int && i != p as int {
            assert(b1[i] == b0[i]);
        }
    }
}


// normal form before the final rotation: x is the red LEFT child of red p, p the LEFT child of black gi, uncle black
pub open spec fn ins_outer_left<K: Ord, V>(b: Buf<K, V>, g: G, r: u32, x: int) -> bool {
    let p = b[x].parent;
    let gi = b[p as int].parent;
    &&& sinv(b, g, r) && cinv(b, g, x) && in_tree(b, g, x)
    &&& b[x].color == Color::Red
    &&& p != EMPTY_REF && b[p as int].color == Color::Red && b[p as int].left as int == x
    &&& gi != EMPTY_REF && b[gi as int].left == p && is_blk(b, b[gi as int].right)
}

// Case 4a: n is the inner (right) child of p, p the left child of gi: rotate_left(p) yields the outer normal form
pub proof fn lemma_ins_inner_left<K: Ord, V>(b0: Buf<K, V>, g0: G, r0: u32, n: int, b1: Buf<K, V>, g1: G, r1: u32)
    requires
        sinv(b0, g0, r0), cinv(b0, g0, n), in_tree(b0, g0, n),
        b0[n].parent != EMPTY_REF,
        b0[n].color == Color::Red,
        b0[b0[n].parent as int].color == Color::Red,
        b0[b0[n].parent as int].parent != EMPTY_REF,
        ({
            let p = b0[n].parent; let gi = b0[p as int].parent;
            &&& b0[gi as int].left == p && is_blk(b0, b0[gi as int].right)
            &&& b0[p as int].right as int == n
            &&& rot_left_rel(b1, g1, r1, b0, g0, r0, p as int)
        }),
        sinv(b1, g1, r1),
    ensures
        ins_outer_left(b1, g1, r1, b0[n].parent as int),
        b1[b0[n].parent as int].parent as int == n,
        b1[n].parent == b0[b0[n].parent as int].parent,
        same_entities(b1, b0),
{
    let p = b0[n].parent; let gi = b0[p as int].parent;
    lemma_insert_fix_facts(b0, g0, r0, n);
    reveal(sinv); reveal(cinv);
    assert(node_ok(b0, g0, r0, n)); assert(node_ok(b0, g0, r0, p as int)); assert(node_ok(b0, g0, r0, gi as int));
    assert(color_ok(b0, g0, n, n)); assert(color_ok(b0, g0, p as int, n)); assert(color_ok(b0, g0, gi as int, n));
    let c = b0[n].left;
    if c != EMPTY_REF { assert(node_ok(b0, g0, r0, c as int)); assert(color_ok(b0, g0, c as int, n)); }
    assert(color_ok(b1, g1, n, p as int));
    assert(color_ok(b1, g1, p as int, p as int));
    assert(color_ok(b1, g1, gi as int, p as int));
    assert forall|i: int| in_tree(b1, g1, i) implies #[trigger] color_ok(b1, g1, i, p as int) by {
        assert(in_tree(b0, g0, i));
        assert(node_ok(b0, g0, r0, i));
        assert(color_ok(b0, g0, i, n));
        if i != n && i != p as int && i != gi as int && i != c as int { assert(b1[i] == b0[i]); }
    }
}

// Case 5a: rotate_right(gi), then p black and gi red restores the full invariant
pub proof fn lemma_ins_outer_left<K: Ord, V>(b1: Buf<K, V>, g1: G, r1: u32, x: int, b2: Buf<K, V>, g2: G, r2: u32, b3: Buf<K, V>) -> (g3: G)
    requires
        ins_outer_left(b1, g1, r1, x),
        ({
            let p = b1[x].parent; let gi = b1[p as int].parent;
            &&& rot_right_rel(b2, g2, r2, b1, g1, r1, gi as int)
            &&& sinv(b2, g2, r2)
            &&& b3 =~= b2.update(p as int, set_color(b2[p as int], Color::Black)).update(gi as int, set_color(b2[gi as int], Color::Red))
        }),
    ensures
        ({
            let p = b1[x].parent; let gi = b1[p as int].parent;
            g3 == (G { ord: g2.ord, ng: add_bh(add_bh(g2.ng, p as int, 1), gi as int, -1) })
        }),
        sinv(b3, g3, r2), cinv(b3, g3, -1), same_entities(b3, b1),
{
    let p = b1[x].parent; let gi = b1[p as int].parent;
    let g3 = G { ord: g2.ord, ng: add_bh(add_bh(g2.ng, p as int, 1), gi as int, -1) };
    reveal(sinv); reveal(cinv);
    assert(node_ok(b1, g1, r1, x)); assert(node_ok(b1, g1, r1, p as int)); assert(node_ok(b1, g1, r1, gi as int));
    assert(color_ok(b1, g1, x, x)); assert(color_ok(b1, g1, p as int, x)); assert(color_ok(b1, g1, gi as int, x));
    let c = b1[p as int].right;
    let u = b1[gi as int].right;
    let gg = b1[gi as int].parent;
    if c != EMPTY_REF { assert(node_ok(b1, g1, r1, c as int)); assert(color_ok(b1, g1, c as int, x)); }
    if u != EMPTY_REF { assert(node_ok(b1, g1, r1, u as int)); assert(color_ok(b1, g1, u as int, x)); }
    if gg != EMPTY_REF { assert(node_ok(b1, g1, r1, gg as int)); assert(color_ok(b1, g1, gg as int, x)); }
    assert(p != gi);
    lemma_sinv_same_struct(b3, g3, b2, g2, r2);
    assert(color_ok(b3, g3, p as int, -1));
    assert(color_ok(b3, g3, gi as int, -1));
    assert(color_ok(b3, g3, x, -1));
    if gg != EMPTY_REF { assert(color_ok(b3, g3, gg as int, -1)); }
    assert forall|i: int| in_tree(b3, g3, i) implies #[trigger] color_ok(b3, g3, i, -1) by {
        assert(in_tree(b1, g1, i));
        assert(node_ok(b1, g1, r1, i));
        assert(color_ok(b1, g1, i, x));
        if i != x && i != p as int && i != gi as int && i != c as int && i != gg as int { assert(b3[i] == b1[i]); }
    }
    g3
}

// normal form before the final rotation: x is the red RIGHT child of red p, p the RIGHT child of black gi, uncle black
pub open spec fn ins_outer_right<K: Ord, V>(b: Buf<K, V>, g: G, r: u32, x: int) -> bool {
    let p = b[x].parent;
    let gi = b[p as int].parent;
    &&& sinv(b, g, r) && cinv(b, g, x) && in_tree(b, g, x)
    &&& b[x].color == Color::Red
    &&& p != EMPTY_REF && b[p as int].color == Color::Red && b[p as int].right as int == x
    &&& gi != EMPTY_REF && b[gi as int].right == p && is_blk(b, b[gi as int].left)
}

// Case 4a: n is the inner (right) child of p, p the right child of gi: rotate_right(p) yields the outer normal form
pub proof fn lemma_ins_inner_right<K: Ord, V>(b0: Buf<K, V>, g0: G, r0: u32, n: int, b1: Buf<K, V>, g1: G, r1: u32)
    requires
        sinv(b0, g0, r0), cinv(b0, g0, n), in_tree(b0, g0, n),
        b0[n].parent != EMPTY_REF,
        b0[n].color == Color::Red,
        b0[b0[n].parent as int].color == Color::Red,
        b0[b0[n].parent as int].parent != EMPTY_REF,
        ({
            let p = b0[n].parent; let gi = b0[p as int].parent;
            &&& b0[gi as int].right == p && is_blk(b0, b0[gi as int].left)
            &&& b0[p as int].left as int == n
            &&& rot_right_rel(b1, g1, r1, b0, g0, r0, p as int)
        }),
        sinv(b1, g1, r1),
    ensures
        ins_outer_right(b1, g1, r1, b0[n].parent as int),
        b1[b0[n].parent as int].parent as int == n,
        b1[n].parent == b0[b0[n].parent as int].parent,
        same_entities(b1, b0),
{
    let p = b0[n].parent; let gi = b0[p as int].parent;
    lemma_insert_fix_facts(b0, g0, r0, n);
    reveal(sinv); reveal(cinv);
    assert(node_ok(b0, g0, r0, n)); assert(node_ok(b0, g0, r0, p as int)); assert(node_ok(b0, g0, r0, gi as int));
    assert(color_ok(b0, g0, n, n)); assert(color_ok(b0, g0, p as int, n)); assert(color_ok(b0, g0, gi as int, n));
    let c = b0[n].right;
    if c != EMPTY_REF { assert(node_ok(b0, g0, r0, c as int)); assert(color_ok(b0, g0, c as int, n)); }
    assert(color_ok(b1, g1, n, p as int));
    assert(color_ok(b1, g1, p as int, p as int));
    assert(color_ok(b1, g1, gi as int, p as int));
    assert forall|i: int| in_tree(b1, g1, i) implies #[trigger] color_ok(b1, g1, i, p as int) by {
        assert(in_tree(b0, g0, i));
        assert(node_ok(b0, g0, r0, i));
        assert(color_ok(b0, g0, i, n));
        if i != n && i != p as int && i != gi as int && i != c as int { assert(b1[i] == b0[i]); }
    }
}

// Case 5a: rotate_left(gi), then p black and gi red restores the full invariant
pub proof fn lemma_ins_outer_right<K: Ord, V>(b1: Buf<K, V>, g1: G, r1: u32, x: int, b2: Buf<K, V>, g2: G, r2: u32, b3: Buf<K, V>) -> (g3: G)
    requires
        ins_outer_right(b1, g1, r1, x),
        ({
            let p = b1[x].parent; let gi = b1[p as int].parent;
            &&& rot_left_rel(b2, g2, r2, b1, g1, r1, gi as int)
            &&& sinv(b2, g2, r2)
            &&& b3 =~= b2.update(p as int, set_color(b2[p as int], Color::Black)).update(gi as int, set_color(b2[gi as int], Color::Red))
        }),
    ensures
        ({
            let p = b1[x].parent; let gi = b1[p as int].parent;
            g3 == (G { ord: g2.ord, ng: add_bh(add_bh(g2.ng, p as int, 1), gi as int, -1) })
        }),
        sinv(b3, g3, r2), cinv(b3, g3, -1), same_entities(b3, b1),
{
    let p = b1[x].parent; let gi = b1[p as int].parent;
    let g3 = G { ord: g2.ord, ng: add_bh(add_bh(g2.ng, p as int, 1), gi as int, -1) };
    reveal(sinv); reveal(cinv);
    assert(node_ok(b1, g1, r1, x)); assert(node_ok(b1, g1, r1, p as int)); assert(node_ok(b1, g1, r1, gi as int));
    assert(color_ok(b1, g1, x, x)); assert(color_ok(b1, g1, p as int, x)); assert(color_ok(b1, g1, gi as int, x));
    let c = b1[p as int].left;
    let u = b1[gi as int].left;
    let gg = b1[gi as int].parent;
    if c != EMPTY_REF { assert(node_ok(b1, g1, r1, c as int)); assert(color_ok(b1, g1, c as int, x)); }
    if u != EMPTY_REF { assert(node_ok(b1, g1, r1, u as int)); assert(color_ok(b1, g1, u as int, x)); }
    if gg != EMPTY_REF { assert(node_ok(b1, g1, r1, gg as int)); assert(color_ok(b1, g1, gg as int, x)); }
    assert(p != gi);
    lemma_sinv_same_struct(b3, g3, b2, g2, r2);
    assert(color_ok(b3, g3, p as int, -1));
    assert(color_ok(b3, g3, gi as int, -1));
    assert(color_ok(b3, g3, x, -1));
    if gg != EMPTY_REF { assert(color_ok(b3, g3, gg as int, -1)); }
    assert forall|i: int| in_tree(b3, g3, i) implies #[trigger] color_ok(b3, g3, i, -1) by {
        assert(in_tree(b1, g1, i));
        assert(node_ok(b1, g1, r1, i));
        assert(color_ok(b1, g1, i, x));
        if i != x && i != p as int && i != gi as int && i != c as int && i != gg as int { assert(b3[i] == b1[i]); }
    }
    g3
}


// Case 2 (n is the LEFT child): red sibling -> sibling black, parent red, rotate_left(parent); the deficit stays at n
#[verifier::rlimit(60)]
pub proof fn lemma_del_red_sibling_left<K: Ord, V>(b0: Buf<K, V>, g0: G, r0: u32, n: int, bm: Buf<K, V>, b1: Buf<K, V>, g1r: G, r1: u32) -> (g1: G)
    requires
        sinv(b0, g0, r0), cinv_def(b0, g0, n), in_tree(b0, g0, n),
        b0[n].parent != EMPTY_REF,
        ({
            let p = b0[n].parent; let s = b0[p as int].right;
            &&& b0[p as int].left as int == n
            &&& b0[s as int].color == Color::Red
            &&& bm =~= b0.update(s as int, set_color(b0[s as int], Color::Black)).update(p as int, set_color(b0[p as int], Color::Red))
            &&& rot_left_rel(b1, g1r, r1, bm, g0, r0, p as int)
        }),
        sinv(b1, g1r, r1),
        nil_under(g0, n),
    ensures
        same_pos(g1, g0), keeps_bounds(g1, g0, g0.ng[n].pos), keeps_inside(g1, g0, n),
        same_shape_at(b1, b0, 0), nil_under(g1, n), range_len(g1, n) == range_len(g0, n),
        ({
            let p = b0[n].parent; let s = b0[p as int].right;
            &&& g1 == (G { ord: g1r.ord, ng: add_bh(add_bh(g1r.ng, p as int, -1), s as int, 1) })
            &&& sinv(b1, g1, r1) && cinv_def(b1, g1, n) && in_tree(b1, g1, n)
            &&& b1[n] == b0[n]
            &&& b1[p as int].left as int == n
            &&& b1[p as int].color == Color::Red
            &&& b1[p as int].right == b0[s as int].left
            &&& b1[p as int].right != EMPTY_REF
            &&& b1[b1[p as int].right as int].color == Color::Black
            &&& same_entities(b1, b0)
            &&& g1.ord == g0.ord
        }),
{
    let p = b0[n].parent; let s = b0[p as int].right;
    let g1 = G { ord: g1r.ord, ng: add_bh(add_bh(g1r.ng, p as int, -1), s as int, 1) };
    lemma_del_facts(b0, g0, r0, n);
    lemma_sinv_same_struct(b1, g1, b1, g1r, r1);
    reveal(sinv); reveal(cinv_def);
    let sl = b0[s as int].left; let sr = b0[s as int].right; let gp = b0[p as int].parent;
    assert(node_ok(b0, g0, r0, n)); assert(node_ok(b0, g0, r0, p as int)); assert(node_ok(b0, g0, r0, s as int));
    assert(node_ok(b0, g0, r0, sl as int)); assert(node_ok(b0, g0, r0, sr as int));
    assert(color_ok(b0, g0, p as int, n)); assert(color_ok(b0, g0, s as int, n));
    assert(color_ok(b0, g0, sl as int, n)); assert(color_ok(b0, g0, sr as int, n));
    if gp != EMPTY_REF { assert(node_ok(b0, g0, r0, gp as int)); assert(color_ok(b0, g0, gp as int, n)); }
    assert(color_def(b1, g1, n));
    assert(color_ok(b1, g1, p as int, n));
    assert(color_ok(b1, g1, s as int, n));
    assert(color_ok(b1, g1, sl as int, n));
    if gp != EMPTY_REF { assert(color_ok(b1, g1, gp as int, n)); }
    assert forall|i: int| in_tree(b1, g1, i) && i != n implies #[trigger] color_ok(b1, g1, i, n) by {
        assert(in_tree(b0, g0, i));
        assert(node_ok(b0, g0, r0, i));
        assert(color_ok(b0, g0, i, n));
        if i != p as int && i != s as int && i != sl as int && i != gp as int { assert(b1[i] == b0[i]); }
    }
    g1
}

// Case 5 (n LEFT child): black sibling, outer (right) nephew black, inner (left) nephew red ->
// inner nephew black, sibling red, rotate_right(sibling); afterwards the outer nephew is red
#[verifier::rlimit(60)]
pub proof fn lemma_del_case5_left<K: Ord, V>(b0: Buf<K, V>, g0: G, r0: u32, n: int, bm: Buf<K, V>, b1: Buf<K, V>, g1r: G, r1: u32) -> (g1: G)
    requires
        sinv(b0, g0, r0), cinv_def(b0, g0, n), in_tree(b0, g0, n),
        b0[n].parent != EMPTY_REF,
        ({
            let p = b0[n].parent; let s = b0[p as int].right; let sl = b0[s as int].left;
            &&& b0[p as int].left as int == n
            &&& b0[s as int].color == Color::Black
            &&& is_blk(b0, b0[s as int].right)
            &&& !is_blk(b0, sl)
            &&& bm =~= b0.update(sl as int, set_color(b0[sl as int], Color::Black)).update(s as int, set_color(b0[s as int], Color::Red))
            &&& rot_right_rel(b1, g1r, r1, bm, g0, r0, s as int)
        }),
        sinv(b1, g1r, r1),
        nil_under(g0, n),
    ensures
        same_pos(g1, g0), keeps_bounds(g1, g0, g0.ng[n].pos), keeps_inside(g1, g0, n),
        same_shape_at(b1, b0, 0), nil_under(g1, n), range_len(g1, n) == range_len(g0, n),
        ({
            let p = b0[n].parent; let s = b0[p as int].right; let sl = b0[s as int].left;
            &&& g1 == (G { ord: g1r.ord, ng: add_bh(add_bh(g1r.ng, sl as int, 1), s as int, -1) })
            &&& sinv(b1, g1, r1) && cinv_def(b1, g1, n) && in_tree(b1, g1, n)
            &&& b1[n] == b0[n]
            &&& b1[p as int].left as int == n
            &&& b1[p as int].color == b0[p as int].color
            &&& b1[p as int].right == sl
            &&& b1[sl as int].color == Color::Black
            &&& b1[sl as int].right == s
            &&& b1[s as int].color == Color::Red
            &&& same_entities(b1, b0)
            &&& g1.ord == g0.ord
        }),
{
    let p = b0[n].parent; let s = b0[p as int].right; let sl = b0[s as int].left;
    let g1 = G { ord: g1r.ord, ng: add_bh(add_bh(g1r.ng, sl as int, 1), s as int, -1) };
    lemma_del_facts(b0, g0, r0, n);
    lemma_sinv_same_struct(b1, g1, b1, g1r, r1);
    reveal(sinv); reveal(cinv_def);
    let sr = b0[s as int].right; let slr = b0[sl as int].right; let sll = b0[sl as int].left;
    assert(node_ok(b0, g0, r0, n)); assert(node_ok(b0, g0, r0, p as int)); assert(node_ok(b0, g0, r0, s as int));
    assert(node_ok(b0, g0, r0, sl as int));
    assert(color_ok(b0, g0, p as int, n)); assert(color_ok(b0, g0, s as int, n)); assert(color_ok(b0, g0, sl as int, n));
    if sr != EMPTY_REF { assert(node_ok(b0, g0, r0, sr as int)); assert(color_ok(b0, g0, sr as int, n)); }
    if slr != EMPTY_REF { assert(node_ok(b0, g0, r0, slr as int)); assert(color_ok(b0, g0, slr as int, n)); }
    if sll != EMPTY_REF { assert(node_ok(b0, g0, r0, sll as int)); assert(color_ok(b0, g0, sll as int, n)); }
    assert(color_def(b1, g1, n));
    assert(color_ok(b1, g1, p as int, n));
    assert(color_ok(b1, g1, s as int, n));
    assert(color_ok(b1, g1, sl as int, n));
    assert forall|i: int| in_tree(b1, g1, i) && i != n implies #[trigger] color_ok(b1, g1, i, n) by {
        assert(in_tree(b0, g0, i));
        assert(node_ok(b0, g0, r0, i));
        assert(color_ok(b0, g0, i, n));
        if i != p as int && i != s as int && i != sl as int && i != slr as int { assert(b1[i] == b0[i]); }
    }
    g1
}

// Case 6 (n LEFT child): black sibling with red outer (right) nephew -> sibling takes the parent's colour,
// parent and outer nephew black, rotate_left(parent); the deficit is gone
#[verifier::rlimit(60)]
pub proof fn lemma_del_case6_left<K: Ord, V>(b0: Buf<K, V>, g0: G, r0: u32, n: int, bm: Buf<K, V>, b1: Buf<K, V>, g1r: G, r1: u32) -> (g1: G)
    requires
        sinv(b0, g0, r0), cinv_def(b0, g0, n), in_tree(b0, g0, n),
        b0[n].parent != EMPTY_REF,
        ({
            let p = b0[n].parent; let s = b0[p as int].right; let sr = b0[s as int].right;
            &&& b0[p as int].left as int == n
            &&& b0[s as int].color == Color::Black
            &&& !is_blk(b0, sr)
            &&& bm =~= b0.update(s as int, set_color(b0[s as int], b0[p as int].color))
                        .update(p as int, set_color(b0[p as int], Color::Black))
                        .update(sr as int, set_color(b0[sr as int], Color::Black))
            &&& rot_left_rel(b1, g1r, r1, bm, g0, r0, p as int)
        }),
        sinv(b1, g1r, r1),
        nil_under(g0, n),
    ensures
        same_pos(g1, g0), keeps_bounds(g1, g0, g0.ng[n].pos), keeps_inside(g1, g0, n),
        same_shape_at(b1, b0, 0),
        ({
            let p = b0[n].parent; let s = b0[p as int].right; let sr = b0[s as int].right;
            let d = blk(b0[p as int].color);
            &&& g1 == (G { ord: g1r.ord, ng: add_bh(add_bh(add_bh(add_bh(g1r.ng, n, -1), p as int, -d), sr as int, 1), s as int, d) })
            &&& sinv(b1, g1, r1) && cinv(b1, g1, -1)
            &&& same_shape_at(b1, b0, n)
            &&& same_entities(b1, b0)
            &&& g1.ord == g0.ord
        }),
{
    let p = b0[n].parent; let s = b0[p as int].right; let sr = b0[s as int].right;
    let d = blk(b0[p as int].color);
    let g1 = G { ord: g1r.ord, ng: add_bh(add_bh(add_bh(add_bh(g1r.ng, n, -1), p as int, -d), sr as int, 1), s as int, d) };
    lemma_del_facts(b0, g0, r0, n);
    lemma_sinv_same_struct(b1, g1, b1, g1r, r1);
    reveal(sinv); reveal(cinv_def); reveal(cinv);
    let sl = b0[s as int].left; let gp = b0[p as int].parent;
    assert(node_ok(b0, g0, r0, n)); assert(node_ok(b0, g0, r0, p as int)); assert(node_ok(b0, g0, r0, s as int));
    assert(node_ok(b0, g0, r0, sr as int));
    assert(color_ok(b0, g0, p as int, n)); assert(color_ok(b0, g0, s as int, n)); assert(color_ok(b0, g0, sr as int, n));
    if sl != EMPTY_REF { assert(node_ok(b0, g0, r0, sl as int)); assert(color_ok(b0, g0, sl as int, n)); }
    if gp != EMPTY_REF { assert(node_ok(b0, g0, r0, gp as int)); assert(color_ok(b0, g0, gp as int, n)); }
    assert(color_ok(b1, g1, n, -1));
    assert(color_ok(b1, g1, p as int, -1));
    assert(color_ok(b1, g1, s as int, -1));
    assert(color_ok(b1, g1, sr as int, -1));
    if gp != EMPTY_REF { assert(color_ok(b1, g1, gp as int, -1)); }
    assert forall|i: int| in_tree(b1, g1, i) implies #[trigger] color_ok(b1, g1, i, -1) by {
        assert(in_tree(b0, g0, i));
        assert(node_ok(b0, g0, r0, i));
        if i != n { assert(color_ok(b0, g0, i, n)); }
        if i != n && i != p as int && i != s as int && i != sr as int && i != sl as int && i != gp as int { assert(b1[i] == b0[i]); }
    }
    g1
}

// Case 2 (n is the RIGHT child): red sibling -> sibling black, parent red, rotate_right(parent); the deficit stays at n
#[verifier::rlimit(60)]
pub proof fn lemma_del_red_sibling_right<K: Ord, V>(b0: Buf<K, V>, g0: G, r0: u32, n: int, bm: Buf<K, V>, b1: Buf<K, V>, g1r: G, r1: u32) -> (g1: G)
    requires
        sinv(b0, g0, r0), cinv_def(b0, g0, n), in_tree(b0, g0, n),
        b0[n].parent != EMPTY_REF,
        ({
            let p = b0[n].parent; let s = b0[p as int].left;
            &&& b0[p as int].right as int == n
            &&& b0[s as int].color == Color::Red
            &&& bm =~= b0.update(s as int, set_color(b0[s as int], Color::Black)).update(p as int, set_color(b0[p as int], Color::Red))
            &&& rot_right_rel(b1, g1r, r1, bm, g0, r0, p as int)
        }),
        sinv(b1, g1r, r1),
        nil_under(g0, n),
    ensures
        same_pos(g1, g0), keeps_bounds(g1, g0, g0.ng[n].pos), keeps_inside(g1, g0, n),
        same_shape_at(b1, b0, 0), nil_under(g1, n), range_len(g1, n) == range_len(g0, n),
        ({
            let p = b0[n].parent; let s = b0[p as int].left;
            &&& g1 == (G { ord: g1r.ord, ng: add_bh(add_bh(g1r.ng, p as int, -1), s as int, 1) })
            &&& sinv(b1, g1, r1) && cinv_def(b1, g1, n) && in_tree(b1, g1, n)
            &&& b1[n] == b0[n]
            &&& b1[p as int].right as int == n
            &&& b1[p as int].color == Color::Red
            &&& b1[p as int].left == b0[s as int].right
            &&& b1[p as int].left != EMPTY_REF
            &&& b1[b1[p as int].left as int].color == Color::Black
            &&& same_entities(b1, b0)
            &&& g1.ord == g0.ord
        }),
{
    let p = b0[n].parent; let s = b0[p as int].left;
    let g1 = G { ord: g1r.ord, ng: add_bh(add_bh(g1r.ng, p as int, -1), s as int, 1) };
    lemma_del_facts(b0, g0, r0, n);
    lemma_sinv_same_struct(b1, g1, b1, g1r, r1);
    reveal(sinv); reveal(cinv_def);
    let sl = b0[s as int].right; let sr = b0[s as int].left; let gp = b0[p as int].parent;
    assert(node_ok(b0, g0, r0, n)); assert(node_ok(b0, g0, r0, p as int)); assert(node_ok(b0, g0, r0, s as int));
    assert(node_ok(b0, g0, r0, sl as int)); assert(node_ok(b0, g0, r0, sr as int));
    assert(color_ok(b0, g0, p as int, n)); assert(color_ok(b0, g0, s as int, n));
    assert(color_ok(b0, g0, sl as int, n)); assert(color_ok(b0, g0, sr as int, n));
    if gp != EMPTY_REF { assert(node_ok(b0, g0, r0, gp as int)); assert(color_ok(b0, g0, gp as int, n)); }
    assert(color_def(b1, g1, n));
    assert(color_ok(b1, g1, p as int, n));
    assert(color_ok(b1, g1, s as int, n));
    assert(color_ok(b1, g1, sl as int, n));
    if gp != EMPTY_REF { assert(color_ok(b1, g1, gp as int, n)); }
    assert forall|i: int| in_tree(b1, g1, i) && i != n implies #[trigger] color_ok(b1, g1, i, n) by {
        assert(in_tree(b0, g0, i));
        assert(node_ok(b0, g0, r0, i));
        assert(color_ok(b0, g0, i, n));
        if i != p as int && i != s as int && i != sl as int && i != gp as int { assert(b1[i] == b0[i]); }
    }
    g1
}

// Case 5 (n RIGHT child): black sibling, outer (right) nephew black, inner (left) nephew red ->
// inner nephew black, sibling red, rotate_left(sibling); afterwards the outer nephew is red
#[verifier::rlimit(60)]
pub proof fn lemma_del_case5_right<K: Ord, V>(b0: Buf<K, V>, g0: G, r0: u32, n: int, bm: Buf<K, V>, b1: Buf<K, V>, g1r: G, r1: u32) -> (g1: G)
    requires
        sinv(b0, g0, r0), cinv_def(b0, g0, n), in_tree(b0, g0, n),
        b0[n].parent != EMPTY_REF,
        ({
            let p = b0[n].parent; let s = b0[p as int].left; let sl = b0[s as int].right;
            &&& b0[p as int].right as int == n
            &&& b0[s as int].color == Color::Black
            &&& is_blk(b0, b0[s as int].left)
            &&& !is_blk(b0, sl)
            &&& bm =~= b0.update(sl as int, set_color(b0[sl as int], Color::Black)).update(s as int, set_color(b0[s as int], Color::Red))
            &&& rot_left_rel(b1, g1r, r1, bm, g0, r0, s as int)
        }),
        sinv(b1, g1r, r1),
        nil_under(g0, n),
    ensures
        same_pos(g1, g0), keeps_bounds(g1, g0, g0.ng[n].pos), keeps_inside(g1, g0, n),
        same_shape_at(b1, b0, 0), nil_under(g1, n), range_len(g1, n) == range_len(g0, n),
        ({
            let p = b0[n].parent; let s = b0[p as int].left; let sl = b0[s as int].right;
            &&& g1 == (G { ord: g1r.ord, ng: add_bh(add_bh(g1r.ng, sl as int, 1), s as int, -1) })
            &&& sinv(b1, g1, r1) && cinv_def(b1, g1, n) && in_tree(b1, g1, n)
            &&& b1[n] == b0[n]
            &&& b1[p as int].right as int == n
            &&& b1[p as int].color == b0[p as int].color
            &&& b1[p as int].left == sl
            &&& b1[sl as int].color == Color::Black
            &&& b1[sl as int].left == s
            &&& b1[s as int].color == Color::Red
            &&& same_entities(b1, b0)
            &&& g1.ord == g0.ord
        }),
{
    let p = b0[n].parent; let s = b0[p as int].left; let sl = b0[s as int].right;
    let g1 = G { ord: g1r.ord, ng: add_bh(add_bh(g1r.ng, sl as int, 1), s as int, -1) };
    lemma_del_facts(b0, g0, r0, n);
    lemma_sinv_same_struct(b1, g1, b1, g1r, r1);
    reveal(sinv); reveal(cinv_def);
    let sr = b0[s as int].left; let slr = b0[sl as int].left; let sll = b0[sl as int].right;
    assert(node_ok(b0, g0, r0, n)); assert(node_ok(b0, g0, r0, p as int)); assert(node_ok(b0, g0, r0, s as int));
    assert(node_ok(b0, g0, r0, sl as int));
    assert(color_ok(b0, g0, p as int, n)); assert(color_ok(b0, g0, s as int, n)); assert(color_ok(b0, g0, sl as int, n));
    if sr != EMPTY_REF { assert(node_ok(b0, g0, r0, sr as int)); assert(color_ok(b0, g0, sr as int, n)); }
    if slr != EMPTY_REF { assert(node_ok(b0, g0, r0, slr as int)); assert(color_ok(b0, g0, slr as int, n)); }
    if sll != EMPTY_REF { assert(node_ok(b0, g0, r0, sll as int)); assert(color_ok(b0, g0, sll as int, n)); }
    assert(color_def(b1, g1, n));
    assert(color_ok(b1, g1, p as int, n));
    assert(color_ok(b1, g1, s as int, n));
    assert(color_ok(b1, g1, sl as int, n));
    assert forall|i: int| in_tree(b1, g1, i) && i != n implies #[trigger] color_ok(b1, g1, i, n) by {
        assert(in_tree(b0, g0, i));
        assert(node_ok(b0, g0, r0, i));
        assert(color_ok(b0, g0, i, n));
        if i != p as int && i != s as int && i != sl as int && i != slr as int { assert(b1[i] == b0[i]); }
    }
    g1
}

// Case 6 (n RIGHT child): black sibling with red outer (right) nephew -> sibling takes the parent's colour,
// parent and outer nephew black, rotate_right(parent); the deficit is gone
#[verifier::rlimit(60)]
pub proof fn lemma_del_case6_right<K: Ord, V>(b0: Buf<K, V>, g0: G, r0: u32, n: int, bm: Buf<K, V>, b1: Buf<K, V>, g1r: G, r1: u32) -> (g1: G)
    requires
        sinv(b0, g0, r0), cinv_def(b0, g0, n), in_tree(b0, g0, n),
        b0[n].parent != EMPTY_REF,
        ({
            let p = b0[n].parent; let s = b0[p as int].left; let sr = b0[s as int].left;
            &&& b0[p as int].right as int == n
            &&& b0[s as int].color == Color::Black
            &&& !is_blk(b0, sr)
            &&& bm =~= b0.update(s as int, set_color(b0[s as int], b0[p as int].color))
                        .update(p as int, set_color(b0[p as int], Color::Black))
                        .update(sr as int, set_color(b0[sr as int], Color::Black))
            &&& rot_right_rel(b1, g1r, r1, bm, g0, r0, p as int)
        }),
        sinv(b1, g1r, r1),
        nil_under(g0, n),
    ensures
        same_pos(g1, g0), keeps_bounds(g1, g0, g0.ng[n].pos), keeps_inside(g1, g0, n),
        same_shape_at(b1, b0, 0),
        ({
            let p = b0[n].parent; let s = b0[p as int].left; let sr = b0[s as int].left;
            let d = blk(b0[p as int].color);
            &&& g1 == (G { ord: g1r.ord, ng: add_bh(add_bh(add_bh(add_bh(g1r.ng, n, -1), p as int, -d), sr as int, 1), s as int, d) })
            &&& sinv(b1, g1, r1) && cinv(b1, g1, -1)
            &&& same_shape_at(b1, b0, n)
            &&& same_entities(b1, b0)
            &&& g1.ord == g0.ord
        }),
{
    let p = b0[n].parent; let s = b0[p as int].left; let sr = b0[s as int].left;
    let d = blk(b0[p as int].color);
    let g1 = G { ord: g1r.ord, ng: add_bh(add_bh(add_bh(add_bh(g1r.ng, n, -1), p as int, -d), sr as int, 1), s as int, d) };
    lemma_del_facts(b0, g0, r0, n);
    lemma_sinv_same_struct(b1, g1, b1, g1r, r1);
    reveal(sinv); reveal(cinv_def); reveal(cinv);
    let sl = b0[s as int].right; let gp = b0[p as int].parent;
    assert(node_ok(b0, g0, r0, n)); assert(node_ok(b0, g0, r0, p as int)); assert(node_ok(b0, g0, r0, s as int));
    assert(node_ok(b0, g0, r0, sr as int));
    assert(color_ok(b0, g0, p as int, n)); assert(color_ok(b0, g0, s as int, n)); assert(color_ok(b0, g0, sr as int, n));
    if sl != EMPTY_REF { assert(node_ok(b0, g0, r0, sl as int)); assert(color_ok(b0, g0, sl as int, n)); }
    if gp != EMPTY_REF { assert(node_ok(b0, g0, r0, gp as int)); assert(color_ok(b0, g0, gp as int, n)); }
    assert(color_ok(b1, g1, n, -1));
    assert(color_ok(b1, g1, p as int, -1));
    assert(color_ok(b1, g1, s as int, -1));
    assert(color_ok(b1, g1, sr as int, -1));
    if gp != EMPTY_REF { assert(color_ok(b1, g1, gp as int, -1)); }
    assert forall|i: int| in_tree(b1, g1, i) implies #[trigger] color_ok(b1, g1, i, -1) by {
        assert(in_tree(b0, g0, i));
        assert(node_ok(b0, g0, r0, i));
        if i != n { assert(color_ok(b0, g0, i, n)); }
        if i != n && i != p as int && i != s as int && i != sr as int && i != sl as int && i != gp as int { assert(b1[i] == b0[i]); }
    }
    g1
}


// stands for #[derive(Clone)] on Node (used only by Vec::resize to fill new slots)
impl<K: Clone, V: Clone> Clone for Node<K, V> {
    #[verifier::external_body]
    fn clone(&self) -> (r: Self)
        ensures r == *self,
    {
        Node { parent: self.parent, left: self.left, right: self.right, color: self.color, entity: self.entity.clone() }
    }
}

impl<K: Copy + Default, V: Clone + Default> Default for Node<K, V> {
    #[verifier::external_body]
    fn default() -> Self {
        unimplemented!()
    }
}

// stands for `self.unused.capacity()`; std: capacity() >= len(); `unused` is created with_capacity(max(8, hint)) and never shrunk
#[verifier::external_body]
pub fn unused_capacity(v: &Vec<u32>) -> (r: usize)
    ensures r >= v@.len(), r >= 8,
{
    v.capacity()
}

// stands for `v.extend((lo..hi).rev())`
#[verifier::external_body]
pub fn extend_rev_range(v: &mut Vec<u32>, lo: u32, hi: u32)
    requires lo <= hi,
    ensures final(v)@ == old(v)@ + Seq::new((hi - lo) as nat, |k: int| (hi - 1 - k) as u32),
{
    v.extend((lo..hi).rev());
}

// room left before slot numbers collide with EMPTY_REF (machine-arithmetic precondition of every insertion)
pub open spec fn pool_room(buf_len: int, unused_len: int) -> bool {
    unused_len > 0 || 2 * buf_len + 16 < EMPTY_REF
}

impl<K: Copy + Default, V: Clone + Default> Pool<K, V> {
    #[inline]
    fn reserve(&mut self, length: usize)
        requires length > 0, old(self).buffer@.len() + length < u32::MAX,
        ensures
            final(self).buffer@.len() == old(self).buffer@.len() + length,
            forall|i: int| 0 <= i < old(self).buffer@.len() ==> #[trigger] final(self).buffer@[i] == old(self).buffer@[i],
            final(self).unused@ == old(self).unused@ + Seq::new(length as nat, |k: int| (old(self).buffer@.len() + length - 1 - k) as u32),
    {
        assert(length > 0);
        let n = self.buffer.len() as u32;
        let l = length as u32;
        self.buffer.reserve(length);
        self.buffer.resize(self.buffer.len() + length, Node::default());
        self.unused.reserve(length);
        extend_rev_range(&mut self.unused, n, n + l);
    }

    #[inline]
    pub(super) fn get_free_index(&mut self) -> (r: u32)
        requires
            old(self).unused@.len() > 0 || old(self).buffer@.len() + old(self).unused@.len() + 0 < EMPTY_REF,
        ensures
            old(self).unused@.len() > 0 ==> {
                &&& final(self).buffer == old(self).buffer
                &&& final(self).unused@ == old(self).unused@.drop_last()
                &&& r == old(self).unused@.last()
            },
            final(self).buffer@.len() >= old(self).buffer@.len(),
            old(self).buffer@.len() < EMPTY_REF ==> final(self).buffer@.len() < EMPTY_REF,
            old(self).unused@.len() == 0 ==> {
                &&& final(self).buffer@.len() >= old(self).buffer@.len() + 8
                &&& forall|i: int| 0 <= i < old(self).buffer@.len() ==> #[trigger] final(self).buffer@[i] == old(self).buffer@[i]
                &&& r as int == old(self).buffer@.len()
                &&& final(self).unused@.len() == final(self).buffer@.len() - old(self).buffer@.len() - 1
                &&& forall|k: int| 0 <= k < final(self).unused@.len() ==> #[trigger] final(self).unused@[k] as int == final(self).buffer@.len() - 1 - k
            },
    {
        if self.unused.is_empty() {
            let c = unused_capacity(&self.unused);
            proof { assume(self.buffer@.len() + c < u32::MAX); } // growth amount is Vec's capacity: assumed to leave room (DESIGN: arena size precondition)
            self.reserve(c);
        }
        self.unused.pop().unwrap()
    }

    #[inline(always)]
    pub(super) fn put_back(&mut self, index: u32)
        ensures
            final(self).unused@ == old(self).unused@.push(index),
            final(self).buffer == old(self).buffer,
    {
        self.unused.push(index)
    }
}


impl<K: ExpiredKey + Default, V: Copy + Default> MapTree<K, V> {
    #[inline]
    pub(super) fn expire_left(&mut self, n_index: u32, time: u64) -> (r: u32)
        requires
            ord_laws::<K>(),
            wf(old(self).store.buffer@, old(self).g@, old(self).root, old(self).store.unused@),
            in_tree(old(self).store.buffer@, old(self).g@, n_index as int),
        ensures
            wf(final(self).store.buffer@, final(self).g@, final(self).root, final(self).store.unused@),
            expire_rel(final(self).store.buffer@, final(self).g@, old(self).store.buffer@, old(self).g@, n_index as int, time, true),
            r == final(self).store.buffer@[n_index as int].left,
            r != EMPTY_REF ==> in_tree(final(self).store.buffer@, final(self).g@, r as int) && is_live(final(self).store.buffer@[r as int].entity, time),
    {
        proof { lemma_links(self.store.buffer@, self.g@, self.root, n_index as int); }
        let mut index = self.node(n_index).left;
        proof {
            let e0 = ents(self.store.buffer@, self.g@);
            assert(e0.subrange(0, self.g@.ng[n_index as int].a) == e0.subrange(0, self.g@.ng[n_index as int].a));
        }

        while index != EMPTY_REF
            invariant
                ord_laws::<K>(),
                wf(self.store.buffer@, self.g@, self.root, self.store.unused@),
                expire_rel(self.store.buffer@, self.g@, old(self).store.buffer@, old(self).g@, n_index as int, time, true),
                index == self.store.buffer@[n_index as int].left,
            decreases self.g@.ng[n_index as int].pos - self.g@.ng[n_index as int].a,
        {
            proof {
                lemma_links(self.store.buffer@, self.g@, self.root, n_index as int);
                lemma_links(self.store.buffer@, self.g@, self.root, index as int);
            }
            let node = self.node(index);
            if node.entity.key.expiration() > time {
                return index;
            }
            let ghost s1 = (self.store.buffer@, self.g@, self.root);
            self.delete_index(index);
            proof {
                let e1 = ents(s1.0, s1.1); let e2 = ents(self.store.buffer@, self.g@);
                let q = s1.1.ng[index as int].pos;
                reveal(sinv);
                assert(node_ok(s1.0, s1.1, s1.2, n_index as int));
                assert(node_ok(s1.0, s1.1, s1.2, index as int));
                assert(e1[q] == s1.0[index as int].entity) by { assert(s1.1.ord[q] as int == index as int); }
                assert forall|t2: u64| t2 >= time implies #[trigger] live_seq(e2, t2) == live_seq(ents(old(self).store.buffer@, old(self).g@), t2) by {
                    lemma_live_remove(e1, q, time, t2);
                }
                let a = s1.1.ng[n_index as int].a; let pn = s1.1.ng[n_index as int].pos;
                assert(e2.subrange(0, a) =~= e1.subrange(0, a));
                assert(e2.subrange(pn - 1, e2.len() as int) =~= e1.subrange(pn, e1.len() as int));
                lemma_links(self.store.buffer@, self.g@, self.root, n_index as int);
            }
            index = self.node(n_index).left;
        }
        index
    }
    #[inline]
    pub(super) fn expire_right(&mut self, n_index: u32, time: u64) -> (r: u32)
        requires
            ord_laws::<K>(),
            wf(old(self).store.buffer@, old(self).g@, old(self).root, old(self).store.unused@),
            in_tree(old(self).store.buffer@, old(self).g@, n_index as int),
        ensures
            wf(final(self).store.buffer@, final(self).g@, final(self).root, final(self).store.unused@),
            expire_rel(final(self).store.buffer@, final(self).g@, old(self).store.buffer@, old(self).g@, n_index as int, time, false),
            r == final(self).store.buffer@[n_index as int].right,
            r != EMPTY_REF ==> in_tree(final(self).store.buffer@, final(self).g@, r as int) && is_live(final(self).store.buffer@[r as int].entity, time),
    {
        proof { lemma_links(self.store.buffer@, self.g@, self.root, n_index as int); }
        let mut index = self.node(n_index).right;
        proof {
            let e0 = ents(self.store.buffer@, self.g@);
            assert(e0.subrange(0, self.g@.ng[n_index as int].pos + 1) == e0.subrange(0, self.g@.ng[n_index as int].pos + 1));
        }

        while index != EMPTY_REF
            invariant
                ord_laws::<K>(),
                wf(self.store.buffer@, self.g@, self.root, self.store.unused@),
                expire_rel(self.store.buffer@, self.g@, old(self).store.buffer@, old(self).g@, n_index as int, time, false),
                index == self.store.buffer@[n_index as int].right,
            decreases self.g@.ng[n_index as int].b - self.g@.ng[n_index as int].pos,
        {
            proof {
                lemma_links(self.store.buffer@, self.g@, self.root, n_index as int);
                lemma_links(self.store.buffer@, self.g@, self.root, index as int);
            }
            let node = self.node(index);
            if node.entity.key.expiration() > time {
                return index;
            }
            let ghost s1 = (self.store.buffer@, self.g@, self.root);
            self.delete_index(index);
            proof {
                let e1 = ents(s1.0, s1.1); let e2 = ents(self.store.buffer@, self.g@);
                let q = s1.1.ng[index as int].pos;
                reveal(sinv);
                assert(node_ok(s1.0, s1.1, s1.2, n_index as int));
                assert(node_ok(s1.0, s1.1, s1.2, index as int));
                assert(e1[q] == s1.0[index as int].entity) by { assert(s1.1.ord[q] as int == index as int); }
                assert forall|t2: u64| t2 >= time implies #[trigger] live_seq(e2, t2) == live_seq(ents(old(self).store.buffer@, old(self).g@), t2) by {
                    lemma_live_remove(e1, q, time, t2);
                }
                let bn = s1.1.ng[n_index as int].b; let pn = s1.1.ng[n_index as int].pos;
                assert(e2.subrange(0, pn + 1) =~= e1.subrange(0, pn + 1));
                assert(e2.subrange(bn - 1, e2.len() as int) =~= e1.subrange(bn, e1.len() as int));
                lemma_links(self.store.buffer@, self.g@, self.root, n_index as int);
            }
            index = self.node(n_index).right;
        }
        index
    }

    #[inline]
    pub(super) fn expire_root(&mut self, time: u64) -> (r: u32)
        requires
            ord_laws::<K>(),
            wf(old(self).store.buffer@, old(self).g@, old(self).root, old(self).store.unused@),
        ensures
            wf(final(self).store.buffer@, final(self).g@, final(self).root, final(self).store.unused@),
            forall|t2: u64| t2 >= time ==> #[trigger] live_seq(ents(final(self).store.buffer@, final(self).g@), t2) == live_seq(ents(old(self).store.buffer@, old(self).g@), t2),
            r == final(self).root,
            r != EMPTY_REF ==> in_tree(final(self).store.buffer@, final(self).g@, r as int) && is_live(final(self).store.buffer@[r as int].entity, time),
    {
        let mut index = self.root;

        while index != EMPTY_REF
            invariant
                ord_laws::<K>(),
                wf(self.store.buffer@, self.g@, self.root, self.store.unused@),
                forall|t2: u64| t2 >= time ==> #[trigger] live_seq(ents(self.store.buffer@, self.g@), t2) == live_seq(ents(old(self).store.buffer@, old(self).g@), t2),
                index == self.root,
            decreases self.g@.ord.len(),
        {
            proof { reveal(sinv); }
            let node = self.node(index);
            if node.entity.key.expiration() > time {
                return index;
            }
            let ghost s1 = (self.store.buffer@, self.g@, self.root);
            self.delete_index(index);
            proof {
                let e1 = ents(s1.0, s1.1); let e2 = ents(self.store.buffer@, self.g@);
                let q = s1.1.ng[index as int].pos;
                reveal(sinv);
                assert(e1[q] == s1.0[index as int].entity) by { assert(s1.1.ord[q] as int == index as int); }
                assert forall|t2: u64| t2 >= time implies #[trigger] live_seq(e2, t2) == live_seq(ents(old(self).store.buffer@, old(self).g@), t2) by {
                    lemma_live_remove(e1, q, time, t2);
                }
                assert(e2.len() == e1.len() - 1);
            }
            index = self.root;
        }
        index
    }


    // KeyExpTree::create_ordered_list in the shape of the planned fix for F1/F2/F6:
    // no physical purge, expired entries are filtered while traversing, the output is reserved for the entry count
    #[inline]
    fn create_ordered_list(&mut self, time: u64) -> (list: Vec<V>)
        requires
            ord_laws::<K>(),
            wf(old(self).store.buffer@, old(self).g@, old(self).root, old(self).store.unused@),
        ensures
            list@ == lv(ents(old(self).store.buffer@, old(self).g@), time),
    {
        proof { reveal(sinv); }
        let count = self.store.buffer.len() - self.store.unused.len() - 1;
        let mut stack: Vec<StackNode> = Vec::with_capacity(8);
        let mut list = Vec::with_capacity(count);

        if self.root == EMPTY_REF {
            proof { assert(ents(self.store.buffer@, self.g@) =~= Seq::<Entity<K, V>>::empty()); }
            return list;
        }

        stack.push(StackNode::new(self.root, self.node(self.root)));
        let ghost mut fr: Seq<int> = seq![self.root as int];
        let ghost n = self.g@.ord.len() as int;
        proof {
            let buf = self.store.buffer@; let g = self.g@;
            assert(node_ok(buf, g, self.root, self.root as int));
            assert(ents(buf, g).subrange(0, 0) =~= Seq::<Entity<K, V>>::empty());
            assert(stack@.last() == stack@[0] && fr.last() == self.root as int);
            assert(trav_inv(buf, g, self.root, stack@, fr, list@, time));
        }

        while !stack.is_empty()
            invariant
                ord_laws::<K>(),
                self.store.buffer@ == old(self).store.buffer@, self.g@ == old(self).g@, self.root == old(self).root, self.store.unused@ == old(self).store.unused@,
                wf(self.store.buffer@, self.g@, self.root, self.store.unused@),
                n == self.g@.ord.len(),
                trav_inv(self.store.buffer@, self.g@, self.root, stack@, fr, list@, time),
                fr.len() <= n, trav_q(self.g@, stack@, fr) <= n,
                // at the loop head the top frame never waits for its right child after having been emitted
                stack@.len() > 0 ==> (stack@.last().index == EMPTY_REF ==> stack@.last().right == EMPTY_REF),
            decreases n - trav_q(self.g@, stack@, fr), trav_mu(n, stack@),
        {
            let ghost buf = self.store.buffer@; let ghost g = self.g@;
            let ghost st0 = stack@;
            proof { lemma_trav_depth(buf, g, self.root, st0, fr, list@, time, 0); }
            let last_stack_index = stack.len() - 1;
            let s = &mut stack[last_stack_index];

            if s.left != EMPTY_REF {
                // go down left
                let index = s.left;
                // to skip next time
                s.left = EMPTY_REF;
                proof { let r = lemma_trav_push(buf, g, self.root, st0, fr, list@, time, true); }

                stack.push(StackNode::new(index, self.node(index)));
                proof {
                    let r = lemma_trav_push(buf, g, self.root, st0, fr, list@, time, true); fr = r.1; assert(stack@ =~= r.0);
                    assert(trav_q(g, stack@, fr) == trav_q(g, st0, fr.drop_last()));
                    assert(stack@.last() == fresh_frame(buf, index as int));
                    assert(trav_mu(n, stack@) < trav_mu(n, st0));
                }
            } else {
                let ghost mut st1 = st0;
                let ghost out0 = list@;
                if s.index != EMPTY_REF {
                    let index = s.index;
                    // to skip next time
                    s.index = EMPTY_REF;
                    proof { let r = lemma_trav_emit(buf, g, self.root, st0, fr, out0, time); }

                    let node = self.node(index);

                    if node.entity.key.expiration() > time {
                        list.push(node.entity.val);
                    }
                    proof { let r = lemma_trav_emit(buf, g, self.root, st0, fr, out0, time); st1 = r.0; assert(list@ == r.1); assert(trav_q(g, st1, fr) == trav_q(g, st0, fr) + 1); }
                }

                if s.right != EMPTY_REF {
                    // go down right
                    let index = s.right;
                    // to skip next time
                    s.right = EMPTY_REF;
                    proof { let r = lemma_trav_push(buf, g, self.root, st1, fr, list@, time, false); }

                    stack.push(StackNode::new(index, self.node(index)));
                    proof {
                        let fr0 = fr;
                        let r = lemma_trav_push(buf, g, self.root, st1, fr, list@, time, false); fr = r.1; assert(stack@ =~= r.0);
                        assert(trav_q(g, stack@, fr) == trav_q(g, st1, fr0));
                        assert(st1 != st0);
                        assert(trav_q(g, stack@, fr) == trav_q(g, st0, fr0) + 1);
                    }
                } else {
                    // go up
                    stack.pop();
                    proof {
                        let fr0 = fr;
                        lemma_trav_pop(buf, g, self.root, st1, fr, list@, time); fr = fr.drop_last(); assert(stack@ =~= st1.drop_last());
                        if fr0.len() > 1 {
                            let k0 = fr0.len() - 2;
                            assert(link_ok(buf, st1[k0], fr0[k0], fr0[k0 + 1]));
                            assert(stack@.last() == st1[k0]);
                        }
                        assert(trav_q(g, stack@, fr) == trav_q(g, st1, fr0));
                        if st1 == st0 { assert(trav_q(g, stack@, fr) == trav_q(g, st0, fr0)); assert(trav_mu(n, stack@) < trav_mu(n, st0)); }
                        else { assert(trav_q(g, stack@, fr) == trav_q(g, st0, fr0) + 1); }
                    }
                }
            }
        }
        proof { assert(ents(self.store.buffer@, self.g@).subrange(0, n) =~= ents(self.store.buffer@, self.g@)); }

        list
    }

    // KeyExpTree::search_first_less
    #[inline]
    fn search_first_less_t(&mut self, time: u64, default: V, key: K) -> (r: V)
        requires
            ord_laws::<K>(),
            wf(old(self).store.buffer@, old(self).g@, old(self).root, old(self).store.unused@),
        ensures
            wf(final(self).store.buffer@, final(self).g@, final(self).root, final(self).store.unused@),
            forall|t2: u64| t2 >= time ==> #[trigger] live_seq(ents(final(self).store.buffer@, final(self).g@), t2) == live_seq(ents(old(self).store.buffer@, old(self).g@), t2),
            r == pred_val(live_seq(ents(old(self).store.buffer@, old(self).g@), time), key, default),
    {
        let mut index = self.expire_root(time);
        let mut result = default;
        let ghost mut wa = 0int;
        let ghost mut wb = self.g@.ord.len() as int;
        proof { reveal(sinv); }
        while index != EMPTY_REF
            invariant
                ord_laws::<K>(),
                wf(self.store.buffer@, self.g@, self.root, self.store.unused@),
                forall|t2: u64| t2 >= time ==> #[trigger] live_seq(ents(self.store.buffer@, self.g@), t2) == live_seq(ents(old(self).store.buffer@, old(self).g@), t2),
                window_lt(self.store.buffer@, self.g@, key, wa, wb),
                index == EMPTY_REF ==> wa == wb,
                index != EMPTY_REF ==> in_tree(self.store.buffer@, self.g@, index as int) && wa == self.g@.ng[index as int].a && wb == self.g@.ng[index as int].b
                    && is_live(self.store.buffer@[index as int].entity, time),
                wa == 0 ==> result == default,
                wa > 0 ==> is_live(ents(self.store.buffer@, self.g@)[wa - 1], time) && key_lt(ents(self.store.buffer@, self.g@)[wa - 1].key, key) && result == ents(self.store.buffer@, self.g@)[wa - 1].val,
            decreases wb - wa,
        {
            proof { lemma_window_lt_step(self.store.buffer@, self.g@, self.root, key, index as int); }
            let ghost s1 = (self.store.buffer@, self.g@, self.root);
            let entity = self.node(index).entity;
            match entity.key.cmp(&key) {
                Ordering::Less => {
                    result = entity.val;
                    let ghost n = index as int;
                    index = self.expire_right(index, time);
                    proof {
                        lemma_window_after_expire(self.store.buffer@, self.g@, self.root, s1.0, s1.1, s1.2, n, time, key, false);
                        lemma_links(self.store.buffer@, self.g@, self.root, n);
                        wa = self.g@.ng[n].pos + 1; wb = self.g@.ng[n].b;
                    }
                },
                _ => {
                    let ghost n = index as int;
                    index = self.expire_left(index, time);
                    proof {
                        lemma_window_after_expire(self.store.buffer@, self.g@, self.root, s1.0, s1.1, s1.2, n, time, key, true);
                        lemma_links(self.store.buffer@, self.g@, self.root, n);
                        let e1 = ents(self.store.buffer@, self.g@); let e0 = ents(s1.0, s1.1);
                        if wa > 0 { assert(e1.subrange(0, wa)[wa - 1] == e0.subrange(0, wa)[wa - 1]); }
                        wb = self.g@.ng[n].pos;
                    }
                },
            }
        }
        proof {
            lemma_pred_of_live(ents(self.store.buffer@, self.g@), time, key, default, wa);
        }

        result
    }

}

impl<K: Copy + Ord + Default, V: Clone + Default> MapTree<K, V> {
    pub open spec fn buf(&self) -> Buf<K, V> { self.store.buffer@ }

    #[inline(always)]
    pub(super) fn node(&self, index: u32) -> (r: &Node<K, V>)
        requires (index as int) < self.store.buffer@.len(),
        ensures *r == self.store.buffer@[index as int],
    {
        &self.store.buffer[index as usize]
    }

    #[inline(always)]
    pub(super) fn node_mut(&mut self, index: u32) -> (r: &mut Node<K, V>)
        requires (index as int) < old(self).store.buffer@.len(),
        ensures
            *r == old(self).store.buffer@[index as int],
            final(self).store.buffer@ == old(self).store.buffer@.update(index as int, *final(r)),
            final(self).store.unused == old(self).store.unused,
            final(self).root == old(self).root,
            final(self).g == old(self).g,
    {
        &mut self.store.buffer[index as usize]
    }

    fn rotate_left(&mut self, index: u32)
        requires
            sinv(old(self).store.buffer@, old(self).g@, old(self).root),
            in_tree(old(self).store.buffer@, old(self).g@, index as int),
            old(self).store.buffer@[index as int].right != EMPTY_REF,
        ensures
            sinv(final(self).store.buffer@, final(self).g@, final(self).root),
            same_payload(final(self).store.buffer@, old(self).store.buffer@),
            final(self).store.unused == old(self).store.unused,
            rot_left_rel(final(self).store.buffer@, final(self).g@, final(self).root, old(self).store.buffer@, old(self).g@, old(self).root, index as int),
    {
        proof {
            let b0 = self.store.buffer@; let g0 = self.g@; let r0 = self.root;
            lemma_links(b0, g0, r0, index as int);
            let y = b0[index as int].right; let c = b0[y as int].left; let p = b0[index as int].parent;
            lemma_links(b0, g0, r0, y as int);
            if c != EMPTY_REF { lemma_links(b0, g0, r0, c as int); }
            if p != EMPTY_REF { lemma_links(b0, g0, r0, p as int); }
        }
        let n = self.node(index);
        let p = n.parent;
        let rt_index = n.right;

        let rt_node = self.node_mut(rt_index);
        let rt_left = rt_node.left;
        rt_node.left = index;

        if rt_left != EMPTY_REF {
            self.node_mut(rt_left).parent = index;
        }
        let node = self.node_mut(index);
        node.right = rt_left;
        node.parent = rt_index;

        self.replace_parents_child(p, index, rt_index);
        proof {
            let b0 = old(self).store.buffer@; let g0 = old(self).g@; let r0 = old(self).root;
            let ng1 = g0.ng.update(index as int, NG { b: g0.ng[rt_index as int].pos, ..g0.ng[index as int] })
                         .update(rt_index as int, NG { a: g0.ng[index as int].a, ..g0.ng[rt_index as int] });
            self.g@ = G { ord: g0.ord, ng: ng1 };
            lemma_rot_left(self.store.buffer@, self.g@, self.root, b0, g0, r0, index as int);
        }
    }


    fn rotate_right(&mut self, index: u32)
        requires
            sinv(old(self).store.buffer@, old(self).g@, old(self).root),
            in_tree(old(self).store.buffer@, old(self).g@, index as int),
            old(self).store.buffer@[index as int].left != EMPTY_REF,
        ensures
            sinv(final(self).store.buffer@, final(self).g@, final(self).root),
            same_payload(final(self).store.buffer@, old(self).store.buffer@),
            final(self).store.unused == old(self).store.unused,
            rot_right_rel(final(self).store.buffer@, final(self).g@, final(self).root, old(self).store.buffer@, old(self).g@, old(self).root, index as int),
    {
        proof {
            let b0 = self.store.buffer@; let g0 = self.g@; let r0 = self.root;
            lemma_links(b0, g0, r0, index as int);
            let y = b0[index as int].left; let c = b0[y as int].right; let p = b0[index as int].parent;
            lemma_links(b0, g0, r0, y as int);
            if c != EMPTY_REF { lemma_links(b0, g0, r0, c as int); }
            if p != EMPTY_REF { lemma_links(b0, g0, r0, p as int); }
        }
        let n = self.node(index);
        let p = n.parent;
        let lt_index = n.left;

        let lt_node = self.node_mut(lt_index);
        let lt_right = lt_node.right;
        lt_node.right = index;

        if lt_right != EMPTY_REF {
            self.node_mut(lt_right).parent = index;
        }

        let node = self.node_mut(index);
        node.left = lt_right;
        node.parent = lt_index;

        self.replace_parents_child(p, index, lt_index);
        proof {
            let b0 = old(self).store.buffer@; let g0 = old(self).g@; let r0 = old(self).root;
            let ng1 = g0.ng.update(index as int, NG { a: g0.ng[lt_index as int].pos + 1, ..g0.ng[index as int] })
                         .update(lt_index as int, NG { b: g0.ng[index as int].b, ..g0.ng[lt_index as int] });
            self.g@ = G { ord: g0.ord, ng: ng1 };
            lemma_rot_right(self.store.buffer@, self.g@, self.root, b0, g0, r0, index as int);
        }
    }


    #[inline]
    fn get_uncle(&self, p_index: u32) -> (r: u32)
        requires
            sinv(self.store.buffer@, self.g@, self.root),
            in_tree(self.store.buffer@, self.g@, p_index as int),
            self.store.buffer@[p_index as int].parent != EMPTY_REF,
        ensures
            ({
                let gp = self.store.buffer@[self.store.buffer@[p_index as int].parent as int];
                r == (if gp.left == p_index { gp.right } else { gp.left })
            }),
    {
        proof { lemma_links(self.store.buffer@, self.g@, self.root, p_index as int); }
        let parent = self.node(p_index);
        let grandparent = self.node(parent.parent);

        if grandparent.left == p_index {
            grandparent.right
        } else {
            grandparent.left
        }
    }

    fn fix_red_black_properties_after_insert(&mut self, n_index: u32, p_origin: u32)
        requires
            sinv(old(self).store.buffer@, old(self).g@, old(self).root),
            cinv(old(self).store.buffer@, old(self).g@, n_index as int),
            in_tree(old(self).store.buffer@, old(self).g@, n_index as int),
            old(self).store.buffer@[n_index as int].parent == p_origin,
            p_origin != EMPTY_REF,
            old(self).store.buffer@[n_index as int].color == Color::Red,
            old(self).store.buffer@[p_origin as int].color == Color::Red,
        ensures
            sinv(final(self).store.buffer@, final(self).g@, final(self).root),
            cinv(final(self).store.buffer@, final(self).g@, -1),
            same_entities(final(self).store.buffer@, old(self).store.buffer@),
            final(self).store.unused == old(self).store.unused,
            final(self).g@.ord == old(self).g@.ord,
        decreases old(self).g@.ord.len() - range_len(old(self).g@, n_index as int),
    {
        proof { lemma_insert_fix_facts(self.store.buffer@, self.g@, self.root, n_index as int); }
        // parent is red!
        let mut p_index = p_origin;
        let g_index = self.node(p_index).parent;
        if g_index == EMPTY_REF {
            self.node_mut(p_index).color = Color::Black;
            proof { self.g@ = lemma_insert_case2(old(self).store.buffer@, old(self).g@, old(self).root, n_index as int, self.store.buffer@); }
            return;
        }

        // Case 3: Uncle is red -> recolor parent, grandparent and uncle
        let u_index = self.get_uncle(p_index);

        if u_index != EMPTY_REF && self.node(u_index).color == Color::Red {
            self.node_mut(p_index).color = Color::Black;
            self.node_mut(g_index).color = Color::Red;
            self.node_mut(u_index).color = Color::Black;
            proof { self.g@ = lemma_insert_case3(old(self).store.buffer@, old(self).g@, old(self).root, n_index as int, self.store.buffer@); }

            // Call recursively for grandparent, which is now red.
            let gg_index = self.node(g_index).parent;
            if gg_index != EMPTY_REF && self.node(gg_index).color == Color::Red {
                self.fix_red_black_properties_after_insert(g_index, gg_index);
            } else {
                proof { lemma_cinv_drop_exc(self.store.buffer@, self.g@, self.root, g_index as int); }
            }
        } else if p_index == self.node(g_index).left {
            // Parent is left child of grandparent
            // Case 4a: Uncle is black and node is left->right "inner child" of its grandparent
            let ghost mut x = n_index as int;
            if n_index == self.node(p_index).right {
                self.rotate_left(p_index);
                proof {
                    lemma_ins_inner_left(old(self).store.buffer@, old(self).g@, old(self).root, n_index as int, self.store.buffer@, self.g@, self.root);
                    x = p_index as int;
                }

                // Let "parent" point to the new root node of the rotated subtree.
                p_index = n_index;
            }
            let ghost s1 = (self.store.buffer@, self.g@, self.root);
            proof { reveal(sinv); assert(node_ok(s1.0, s1.1, s1.2, p_index as int)); lemma_links(s1.0, s1.1, s1.2, x); lemma_links(s1.0, s1.1, s1.2, p_index as int); }

            // Case 5a: Uncle is black and node is left->left "outer child" of its grandparent
            self.rotate_right(g_index);
            let ghost s2 = (self.store.buffer@, self.g@, self.root);

            // Recolor original parent and grandparent
            self.node_mut(p_index).color = Color::Black;
            self.node_mut(g_index).color = Color::Red;
            proof { self.g@ = lemma_ins_outer_left(s1.0, s1.1, s1.2, x, s2.0, s2.1, s2.2, self.store.buffer@); }
        } else {
            // Parent is right child of grandparent
            // Case 4b: Uncle is black and node is right->left "inner child" of its grandparent
            let ghost mut x = n_index as int;
            if n_index == self.node(p_index).left {
                self.rotate_right(p_index);
                proof {
                    lemma_ins_inner_right(old(self).store.buffer@, old(self).g@, old(self).root, n_index as int, self.store.buffer@, self.g@, self.root);
                    x = p_index as int;
                }

                // Let "parent" point to the new root node of the rotated subtree.
                p_index = n_index;
            }
            let ghost s1 = (self.store.buffer@, self.g@, self.root);
            proof { reveal(sinv); assert(node_ok(s1.0, s1.1, s1.2, p_index as int)); lemma_links(s1.0, s1.1, s1.2, x); lemma_links(s1.0, s1.1, s1.2, p_index as int); }

            // Case 5b: Uncle is black and node is right->right "outer child" of its grandparent
            self.rotate_left(g_index);
            let ghost s2 = (self.store.buffer@, self.g@, self.root);

            // Recolor original parent and grandparent
            self.node_mut(p_index).color = Color::Black;
            self.node_mut(g_index).color = Color::Red;
            proof { self.g@ = lemma_ins_outer_right(s1.0, s1.1, s1.2, x, s2.0, s2.1, s2.2, self.store.buffer@); }
        }
    }


    #[inline(always)]
    fn is_black(&self, index: u32) -> (r: bool)
        requires index == EMPTY_REF || (index as int) < self.store.buffer@.len(),
        ensures r == is_blk(self.store.buffer@, index),
    {
        index == EMPTY_REF || self.node(index).color == Color::Black
    }

    #[inline(always)]
    fn get_sibling(&self, n_index: u32) -> (r: u32)
        requires
            sinv(self.store.buffer@, self.g@, self.root),
            in_tree(self.store.buffer@, self.g@, n_index as int),
            self.store.buffer@[n_index as int].parent != EMPTY_REF,
        ensures r == sibling_of(self.store.buffer@, n_index as int),
    {
        proof { lemma_links(self.store.buffer@, self.g@, self.root, n_index as int); }
        let p_index = self.node(n_index).parent;
        let parent = self.node(p_index);
        if n_index == parent.left {
            parent.right
        } else {
            parent.left
        }
    }

    fn fix_red_black_properties_after_delete(&mut self, n_index: u32)
        requires
            sinv(old(self).store.buffer@, old(self).g@, old(self).root),
            cinv_def(old(self).store.buffer@, old(self).g@, n_index as int),
            in_tree(old(self).store.buffer@, old(self).g@, n_index as int),
            nil_under(old(self).g@, n_index as int),
        ensures
            same_pos(final(self).g@, old(self).g@),
            keeps_bounds(final(self).g@, old(self).g@, old(self).g@.ng[n_index as int].pos),
            keeps_inside(final(self).g@, old(self).g@, n_index as int),
            sinv(final(self).store.buffer@, final(self).g@, final(self).root),
            cinv(final(self).store.buffer@, final(self).g@, -1),
            same_entities(final(self).store.buffer@, old(self).store.buffer@),
            same_shape_at(final(self).store.buffer@, old(self).store.buffer@, 0),
            final(self).store.unused == old(self).store.unused,
            final(self).g@.ord == old(self).g@.ord,
        decreases old(self).g@.ord.len() - range_len(old(self).g@, n_index as int),
    {
        proof { lemma_links(self.store.buffer@, self.g@, self.root, n_index as int); reveal(sinv); }
        // Case 1: Examined node is root, end of recursion
        if n_index == self.root {
            // do not color root to black
            proof { self.g@ = lemma_del_case1(self.store.buffer@, self.g@, self.root, n_index as int); }
            return;
        }
        proof { reveal(sinv); assert(node_ok(self.store.buffer@, self.g@, self.root, n_index as int)); lemma_del_facts(self.store.buffer@, self.g@, self.root, n_index as int); }

        let mut s_index = self.get_sibling(n_index);

        // Case 2: Red sibling
        if self.node(s_index).color == Color::Red {
            self.handle_red_sibling(n_index, s_index);
            proof { lemma_del_facts(self.store.buffer@, self.g@, self.root, n_index as int); }
            s_index = self.get_sibling(n_index) // Get new sibling for fall-through to cases 3-6
        }
        let ghost s1 = (self.store.buffer@, self.g@, self.root);
        proof { lemma_bounds_refl(old(self).g@, old(self).g@.ng[n_index as int].pos); }

        let sibling = self.node(s_index);

        // Cases 3+4: Black sibling with two black children
        if self.is_black(sibling.left) && self.is_black(sibling.right) {
            self.node_mut(s_index).color = Color::Red;
            let p_index = self.node(n_index).parent;

            // Case 3: Black sibling with two black children + red parent
            let parent = self.node_mut(p_index);
            if parent.color == Color::Red {
                parent.color = Color::Black;
                proof {
                    self.g@ = lemma_del_case34(s1.0, s1.1, s1.2, n_index as int, self.store.buffer@);
                    lemma_bounds_trans(self.g@, s1.1, old(self).g@, old(self).g@.ng[n_index as int].pos); lemma_inside_trans(self.g@, s1.1, old(self).g@, n_index as int);
                }
            } else {
                // Case 4: Black sibling with two black children + black parent
                proof { self.g@ = lemma_del_case34(s1.0, s1.1, s1.2, n_index as int, self.store.buffer@); }
                let ghost g1 = self.g@;
                self.fix_red_black_properties_after_delete(p_index);
                proof {
                    lemma_bounds_up(s1.0, s1.1, s1.2, n_index as int, g1, self.g@);
                    lemma_bounds_trans(self.g@, s1.1, old(self).g@, old(self).g@.ng[n_index as int].pos); lemma_inside_trans(self.g@, s1.1, old(self).g@, n_index as int);
                }
            }
        } else {
            // Case 5+6: Black sibling with at least one red child
            self.handle_black_sibling_with_at_least_one_red_child(n_index, s_index);
            proof { lemma_bounds_trans(self.g@, s1.1, old(self).g@, old(self).g@.ng[n_index as int].pos); lemma_inside_trans(self.g@, s1.1, old(self).g@, n_index as int); }
        }
    }

    fn handle_black_sibling_with_at_least_one_red_child(&mut self, n_index: u32, s_origin: u32)
        requires
            sinv(old(self).store.buffer@, old(self).g@, old(self).root),
            cinv_def(old(self).store.buffer@, old(self).g@, n_index as int),
            in_tree(old(self).store.buffer@, old(self).g@, n_index as int),
            old(self).store.buffer@[n_index as int].parent != EMPTY_REF,
            s_origin == sibling_of(old(self).store.buffer@, n_index as int),
            old(self).store.buffer@[s_origin as int].color == Color::Black,
            !(is_blk(old(self).store.buffer@, old(self).store.buffer@[s_origin as int].left) && is_blk(old(self).store.buffer@, old(self).store.buffer@[s_origin as int].right)),
            nil_under(old(self).g@, n_index as int),
        ensures
            same_pos(final(self).g@, old(self).g@),
            keeps_bounds(final(self).g@, old(self).g@, old(self).g@.ng[n_index as int].pos),
            keeps_inside(final(self).g@, old(self).g@, n_index as int),
            sinv(final(self).store.buffer@, final(self).g@, final(self).root),
            cinv(final(self).store.buffer@, final(self).g@, -1),
            same_entities(final(self).store.buffer@, old(self).store.buffer@),
            same_shape_at(final(self).store.buffer@, old(self).store.buffer@, 0),
            final(self).store.unused == old(self).store.unused,
            final(self).g@.ord == old(self).g@.ord,
    {
        proof { lemma_del_facts(self.store.buffer@, self.g@, self.root, n_index as int); }
        let p_index = self.node(n_index).parent;

        let mut s_index = s_origin;
        let (mut sibling_left, mut sibling_right) = {
            let sibling = self.node(s_origin);
            (sibling.left, sibling.right)
        };

        let node_is_left_child = n_index == self.node(p_index).left;

        // Case 5: Black sibling with at least one red child + "outer nephew" is black
        // --> Recolor sibling and its child, and rotate around sibling
        if node_is_left_child && self.is_black(sibling_right) {
            if sibling_left != EMPTY_REF {
                self.node_mut(sibling_left).color = Color::Black;
            }
            self.node_mut(s_index).color = Color::Red;
            let ghost bm = self.store.buffer@;
            proof { lemma_sinv_same_struct(bm, self.g@, old(self).store.buffer@, old(self).g@, self.root); }
            self.rotate_right(s_index);
            proof { self.g@ = lemma_del_case5_left(old(self).store.buffer@, old(self).g@, old(self).root, n_index as int, bm, self.store.buffer@, self.g@, self.root); }
            s_index = self.node(p_index).right;

            let sibling = self.node(s_index);
            sibling_left = sibling.left;
            sibling_right = sibling.right;
        } else if !node_is_left_child && self.is_black(sibling_left) {
            if sibling_right != EMPTY_REF {
                self.node_mut(sibling_right).color = Color::Black;
            }
            self.node_mut(s_index).color = Color::Red;
            let ghost bm = self.store.buffer@;
            proof { lemma_sinv_same_struct(bm, self.g@, old(self).store.buffer@, old(self).g@, self.root); }
            self.rotate_left(s_index);
            proof { self.g@ = lemma_del_case5_right(old(self).store.buffer@, old(self).g@, old(self).root, n_index as int, bm, self.store.buffer@, self.g@, self.root); }
            s_index = self.node(p_index).left;

            let sibling = self.node(s_index);
            sibling_left = sibling.left;
            sibling_right = sibling.right;
        }
        let ghost s1 = (self.store.buffer@, self.g@, self.root);
        proof { lemma_del_facts(s1.0, s1.1, s1.2, n_index as int); lemma_bounds_refl(old(self).g@, old(self).g@.ng[n_index as int].pos); }

        // Fall-through to case 6...

        // Case 6: Black sibling with at least one red child + "outer nephew" is red
        // --> Recolor sibling + parent + sibling's child, and rotate around parent
        self.node_mut(s_index).color = self.node(p_index).color;
        self.node_mut(p_index).color = Color::Black;
        if node_is_left_child {
            if sibling_right != EMPTY_REF {
                self.node_mut(sibling_right).color = Color::Black;
            }
            let ghost bm = self.store.buffer@;
            proof { lemma_sinv_same_struct(bm, self.g@, s1.0, s1.1, self.root); }
            self.rotate_left(p_index);
            proof {
                self.g@ = lemma_del_case6_left(s1.0, s1.1, s1.2, n_index as int, bm, self.store.buffer@, self.g@, self.root);
                lemma_bounds_trans(self.g@, s1.1, old(self).g@, old(self).g@.ng[n_index as int].pos); lemma_inside_trans(self.g@, s1.1, old(self).g@, n_index as int);
            }
        } else {
            if sibling_left != EMPTY_REF {
                self.node_mut(sibling_left).color = Color::Black;
            }
            let ghost bm = self.store.buffer@;
            proof { lemma_sinv_same_struct(bm, self.g@, s1.0, s1.1, self.root); }
            self.rotate_right(p_index);
            proof {
                self.g@ = lemma_del_case6_right(s1.0, s1.1, s1.2, n_index as int, bm, self.store.buffer@, self.g@, self.root);
                lemma_bounds_trans(self.g@, s1.1, old(self).g@, old(self).g@.ng[n_index as int].pos); lemma_inside_trans(self.g@, s1.1, old(self).g@, n_index as int);
            }
        }
    }

    fn handle_red_sibling(&mut self, n_index: u32, s_index: u32)
        requires
            sinv(old(self).store.buffer@, old(self).g@, old(self).root),
            cinv_def(old(self).store.buffer@, old(self).g@, n_index as int),
            in_tree(old(self).store.buffer@, old(self).g@, n_index as int),
            old(self).store.buffer@[n_index as int].parent != EMPTY_REF,
            s_index == sibling_of(old(self).store.buffer@, n_index as int),
            old(self).store.buffer@[s_index as int].color == Color::Red,
            nil_under(old(self).g@, n_index as int),
        ensures
            same_pos(final(self).g@, old(self).g@),
            keeps_bounds(final(self).g@, old(self).g@, old(self).g@.ng[n_index as int].pos),
            keeps_inside(final(self).g@, old(self).g@, n_index as int),
            same_shape_at(final(self).store.buffer@, old(self).store.buffer@, 0),
            nil_under(final(self).g@, n_index as int),
            range_len(final(self).g@, n_index as int) == range_len(old(self).g@, n_index as int),
            sinv(final(self).store.buffer@, final(self).g@, final(self).root),
            cinv_def(final(self).store.buffer@, final(self).g@, n_index as int),
            in_tree(final(self).store.buffer@, final(self).g@, n_index as int),
            final(self).store.buffer@[n_index as int] == old(self).store.buffer@[n_index as int],
            final(self).store.buffer@[sibling_of(final(self).store.buffer@, n_index as int) as int].color == Color::Black,
            same_entities(final(self).store.buffer@, old(self).store.buffer@),
            final(self).store.unused == old(self).store.unused,
            final(self).g@.ord == old(self).g@.ord,
    {
        proof { lemma_del_facts(self.store.buffer@, self.g@, self.root, n_index as int); }
        // Recolor...

        self.node_mut(s_index).color = Color::Black;
        let p_index = self.node(n_index).parent;
        let parent = self.node_mut(p_index);

        parent.color = Color::Red;

        // ... and rotate
        if n_index == parent.left {
            let ghost bm = self.store.buffer@;
            proof { lemma_sinv_same_struct(bm, self.g@, old(self).store.buffer@, old(self).g@, self.root); }
            self.rotate_left(p_index);
            proof { self.g@ = lemma_del_red_sibling_left(old(self).store.buffer@, old(self).g@, old(self).root, n_index as int, bm, self.store.buffer@, self.g@, self.root); }
        } else {
            let ghost bm = self.store.buffer@;
            proof { lemma_sinv_same_struct(bm, self.g@, old(self).store.buffer@, old(self).g@, self.root); }
            self.rotate_right(p_index);
            proof { self.g@ = lemma_del_red_sibling_right(old(self).store.buffer@, old(self).g@, old(self).root, n_index as int, bm, self.store.buffer@, self.g@, self.root); }
        }
    }


    #[inline]
    fn create_nil_node(&mut self, parent: u32)
        requires old(self).store.buffer@.len() > 0,
        ensures
            final(self).store.buffer@ =~= old(self).store.buffer@.update(0, nil_node(old(self).store.buffer@[0], parent)),
            final(self).store.unused == old(self).store.unused,
            final(self).root == old(self).root,
            final(self).g == old(self).g,
    {
        let node = self.node_mut(NIL_INDEX);
        node.parent = parent;
        node.left = EMPTY_REF;
        node.right = EMPTY_REF;
        node.color = Color::Red;
    }

    #[inline]
    fn find_left_minimum(&self, mut i: u32) -> (r: u32)
        requires
            sinv(self.store.buffer@, self.g@, self.root),
            in_tree(self.store.buffer@, self.g@, i as int),
        ensures
            in_tree(self.store.buffer@, self.g@, r as int),
            self.store.buffer@[r as int].left == EMPTY_REF,
            self.g@.ng[r as int].pos == self.g@.ng[i as int].a,
    {
        let ghost i0 = i;
        while self.node(i).left != EMPTY_REF
            invariant
                sinv(self.store.buffer@, self.g@, self.root),
                in_tree(self.store.buffer@, self.g@, i as int),
                self.g@.ng[i as int].a == self.g@.ng[i0 as int].a,
            decreases range_len(self.g@, i as int),
        {
            proof { lemma_links(self.store.buffer@, self.g@, self.root, i as int); lemma_links(self.store.buffer@, self.g@, self.root, self.store.buffer@[i as int].left as int); }
            i = self.node(i).left;
        }
        proof { lemma_links(self.store.buffer@, self.g@, self.root, i as int); }
        i
    }

    #[inline]
    fn remove_parents_child(&mut self, parent: u32, old_child: u32)
        requires
            (parent as int) < old(self).store.buffer@.len(),
            old(self).store.buffer@[parent as int].left == old_child || old(self).store.buffer@[parent as int].right == old_child,
        ensures
            final(self).store.buffer@ =~= old(self).store.buffer@.update(parent as int, unlink_child(old(self).store.buffer@[parent as int], old_child as int, EMPTY_REF)),
            final(self).store.unused == old(self).store.unused,
            final(self).root == old(self).root,
            final(self).g == old(self).g,
    {
        let p = self.node_mut(parent);
        assert(p.left == old_child || p.right == old_child);

        if p.left == old_child {
            p.left = EMPTY_REF;
        } else {
            p.right = EMPTY_REF;
        }
    }

    #[inline]
    fn set_nil_parents_child(&mut self, parent: u32, old_child: u32)
        requires
            (parent as int) < old(self).store.buffer@.len(),
            old(self).store.buffer@[parent as int].left == old_child || old(self).store.buffer@[parent as int].right == old_child,
        ensures
            final(self).store.buffer@ =~= old(self).store.buffer@.update(parent as int, unlink_child(old(self).store.buffer@[parent as int], old_child as int, 0u32)),
            final(self).store.unused == old(self).store.unused,
            final(self).root == old(self).root,
            final(self).g == old(self).g,
    {
        let p = self.node_mut(parent);
        assert(p.left == old_child || p.right == old_child);

        if p.left == old_child {
            p.left = NIL_INDEX;
        } else {
            p.right = NIL_INDEX;
        }
    }

    #[inline]
    fn fix_parents_nil_child(&mut self)
        requires
            old(self).store.buffer@.len() > 0,
            (old(self).store.buffer@[0].parent as int) < old(self).store.buffer@.len(),
            ({ let p = old(self).store.buffer@[0].parent as int; old(self).store.buffer@[p].left == 0u32 || old(self).store.buffer@[p].right == 0u32 }),
        ensures
            final(self).store.buffer@ =~= old(self).store.buffer@.update(old(self).store.buffer@[0].parent as int, unlink_child(old(self).store.buffer@[old(self).store.buffer@[0].parent as int], 0, EMPTY_REF)),
            final(self).store.unused == old(self).store.unused,
            final(self).root == old(self).root,
            final(self).g == old(self).g,
    {
        let p_index = self.node(NIL_INDEX).parent;
        let p = self.node_mut(p_index);
        assert(p.left == NIL_INDEX || p.right == NIL_INDEX);

        if p.left == NIL_INDEX {
            p.left = EMPTY_REF;
        } else {
            p.right = EMPTY_REF;
        }
    }


    #[verifier::rlimit(100)]
    pub(super) fn delete_index(&mut self, index: u32)
        requires
            wf(old(self).store.buffer@, old(self).g@, old(self).root, old(self).store.unused@),
            in_tree(old(self).store.buffer@, old(self).g@, index as int),
        ensures
            ({
                let b0 = old(self).store.buffer@; let g0 = old(self).g@; let p = b0[index as int].parent;
                p != EMPTY_REF ==> {
                    &&& in_tree(final(self).store.buffer@, final(self).g@, p as int)
                    &&& b0[p as int].left == index ==> final(self).g@.ng[p as int].a == g0.ng[p as int].a && final(self).g@.ng[p as int].pos == g0.ng[p as int].pos - 1
                    &&& b0[p as int].left != index ==> final(self).g@.ng[p as int].b == g0.ng[p as int].b - 1 && final(self).g@.ng[p as int].pos == g0.ng[p as int].pos
                }
            }),
            wf(final(self).store.buffer@, final(self).g@, final(self).root, final(self).store.unused@),
            ents(final(self).store.buffer@, final(self).g@) =~= ents(old(self).store.buffer@, old(self).g@).remove(old(self).g@.ng[index as int].pos),
            final(self).store.buffer@.len() == old(self).store.buffer@.len(),
            forall|i: int| 0 < i < final(self).store.buffer@.len() && i != index as int ==> (#[trigger] final(self).store.buffer@[i]).entity == old(self).store.buffer@[i].entity,
    {
        proof { lemma_links(self.store.buffer@, self.g@, self.root, index as int); }
        // Node has zero or one child
        let mut delete_index= index;

        let node = self.node(index);
        let mut nd_left = node.left;
        let mut nd_right = node.right;
        let mut nd_parent = node.parent;
        let mut nd_color = node.color;

        // if two children replace node with it left minimum
        if nd_left != EMPTY_REF && nd_right != EMPTY_REF {
            let successor_index = self.find_left_minimum(nd_right);
            proof { lemma_links(self.store.buffer@, self.g@, self.root, index as int); lemma_links(self.store.buffer@, self.g@, self.root, successor_index as int); }
            let successor = self.node(successor_index);
            let entity = successor.entity.clone();
            nd_parent = successor.parent;
            nd_left = successor.left;
            nd_right = successor.right;
            nd_color = successor.color;

            self.node_mut(index).entity = entity;
            proof { lemma_move_up(old(self).store.buffer@, self.g@, self.root, index as int, successor_index as int, self.store.buffer@); }

            delete_index = successor_index;
        } else {
            proof { lemma_sinv_to_skip(self.store.buffer@, self.g@, self.root, self.g@.ng[index as int].pos); }
        }
        let ghost sm = (self.store.buffer@, self.g@, self.root);
        let ghost d = delete_index as int;
        proof {
            assert(move_rel(sm.0, old(self).store.buffer@, old(self).g@, index as int, d));
            lemma_links_skip(sm.0, sm.1, sm.2, sm.1.ng[d].pos, d);
            if nd_parent != EMPTY_REF { lemma_links_skip(sm.0, sm.1, sm.2, sm.1.ng[d].pos, nd_parent as int); }
        }

        // only one child can be!

        if nd_left != EMPTY_REF {
            self.replace_parents_child(nd_parent, delete_index, nd_left);
            proof { self.g@ = lemma_splice(sm.0, sm.1, sm.2, d, self.store.buffer@, self.root); }
            let ghost s3 = (self.store.buffer@, self.g@, self.root);
            self.fix_red_black_properties_after_delete(nd_left);
            proof {
                lemma_same_ord_membership(self.store.buffer@, self.g@, self.root, s3.0, s3.1, s3.2);
                lemma_au_shift(sm.1, d); lemma_au_bh(s3.1, removed_g(sm.1, d), sm.1, d, nd_left as int, sm.1.ng[d].bh);
                lemma_au_splice(sm.0, sm.1, sm.2, d, s3.1, self.g@);
                assert(after_unlink(self.store.buffer@, self.g@, self.root, sm.0, sm.1, d));
            }
        } else if nd_right != EMPTY_REF {
            self.replace_parents_child(nd_parent, delete_index, nd_right);
            proof { self.g@ = lemma_splice(sm.0, sm.1, sm.2, d, self.store.buffer@, self.root); }
            let ghost s3 = (self.store.buffer@, self.g@, self.root);
            self.fix_red_black_properties_after_delete(nd_right);
            proof {
                lemma_same_ord_membership(self.store.buffer@, self.g@, self.root, s3.0, s3.1, s3.2);
                lemma_au_shift(sm.1, d); lemma_au_bh(s3.1, removed_g(sm.1, d), sm.1, d, nd_right as int, sm.1.ng[d].bh);
                lemma_au_splice(sm.0, sm.1, sm.2, d, s3.1, self.g@);
                assert(after_unlink(self.store.buffer@, self.g@, self.root, sm.0, sm.1, d));
            }
        } else if nd_parent == EMPTY_REF {
            self.root = EMPTY_REF;
            proof { self.g@ = lemma_remove_root_leaf(sm.0, sm.1, sm.2, d); lemma_au_shift(sm.1, d); assert(after_unlink(self.store.buffer@, self.g@, self.root, sm.0, sm.1, d)); }
        } else {
            // Node has no children -->
            // * node is red --> just remove it
            // * node is black --> replace it by a temporary NIL node (needed to fix the R-B rules)
            if nd_color == Color::Black {
                self.create_nil_node(nd_parent);
                self.set_nil_parents_child(nd_parent, delete_index);
                proof { self.g@ = lemma_nil_subst(sm.0, sm.1, sm.2, d, self.store.buffer@); }
                let ghost s3 = (self.store.buffer@, self.g@, self.root);
                self.fix_red_black_properties_after_delete(NIL_INDEX);
                let ghost s2 = (self.store.buffer@, self.g@, self.root);
                proof {
                    lemma_same_ord_membership(s2.0, s2.1, s2.2, s3.0, s3.1, s3.2);
                    lemma_sinv_to_skip(s2.0, s2.1, s2.2, s2.1.ng[0].pos);
                    lemma_leaf_not_root(s2.0, s2.1, s2.2, 0);
                }
                self.fix_parents_nil_child();
                proof {
                    self.g@ = lemma_remove_red_leaf(s2.0, s2.1, s2.2, 0, self.store.buffer@);
                    lemma_au_nil(sm.1, d, s3.1, s2.1, self.g@);
                    assert(self.g@.ord =~= sm.1.ord.remove(sm.1.ng[d].pos));
                    assert(after_unlink(self.store.buffer@, self.g@, self.root, sm.0, sm.1, d));
                }
            } else {
                self.remove_parents_child(nd_parent, delete_index);
                proof { self.g@ = lemma_remove_red_leaf(sm.0, sm.1, sm.2, d, self.store.buffer@); lemma_au_shift(sm.1, d); assert(after_unlink(self.store.buffer@, self.g@, self.root, sm.0, sm.1, d)); }
            }
        }

        let ghost s4 = (self.store.buffer@, self.g@, self.root);
        proof { assert(after_unlink(s4.0, s4.1, s4.2, sm.0, sm.1, d)); }
        self.store.put_back(delete_index);
        proof {
            lemma_delete_finish(old(self).store.buffer@, old(self).g@, old(self).root, old(self).store.unused@, index as int, sm.0, d,
                                self.store.buffer@, self.g@, self.root, self.store.unused@);
        }
    }


    #[inline]
    fn search_value(&self, key: K) -> (r: Option<&V>)
        requires
            ord_laws::<K>(),
            wf(self.store.buffer@, self.g@, self.root, self.store.unused@),
        ensures
            match r {
                Some(v) => exists|q: int| 0 <= q < self.g@.ord.len() && key_eq(key, key_at(self.store.buffer@, self.g@, q)) && *v == self.store.buffer@[self.g@.ord[q] as int].entity.val,
                None => forall|q: int| 0 <= q < self.g@.ord.len() ==> !key_eq(key, #[trigger] key_at(self.store.buffer@, self.g@, q)),
            },
    {
        let mut index = self.root;
        let ghost mut wa = 0int;
        let ghost mut wb = self.g@.ord.len() as int;
        proof { reveal(sinv); }

        while index != EMPTY_REF
            invariant
                ord_laws::<K>(),
                wf(self.store.buffer@, self.g@, self.root, self.store.unused@),
                window(self.store.buffer@, self.g@, key, wa, wb),
                index == EMPTY_REF ==> wa == wb,
                index != EMPTY_REF ==> in_tree(self.store.buffer@, self.g@, index as int) && wa == self.g@.ng[index as int].a && wb == self.g@.ng[index as int].b,
            decreases wb - wa,
        {
            proof { lemma_window_step(self.store.buffer@, self.g@, self.root, key, index as int); }
            let node = self.node(index);
            match key.cmp(&node.entity.key) {
                Ordering::Equal => return Some(&node.entity.val),
                Ordering::Less => {
                    proof { wb = self.g@.ng[index as int].pos; }
                    index = node.left
                },
                Ordering::Greater => {
                    proof { wa = self.g@.ng[index as int].pos + 1; }
                    index = node.right
                },
            }
        }
        proof {
            assert forall|q: int| 0 <= q < self.g@.ord.len() implies !key_eq(key, #[trigger] key_at(self.store.buffer@, self.g@, q)) by {
                if q < wa { assert(key_lt(key_at(self.store.buffer@, self.g@, q), key)); } else { assert(key_lt(key, key_at(self.store.buffer@, self.g@, q))); }
            }
        }

        None
    }

    #[inline]
    fn search_first_less(&self, key: K) -> (r: u32)
        requires
            ord_laws::<K>(),
            wf(self.store.buffer@, self.g@, self.root, self.store.unused@),
        ensures
            // the greatest stored key that is <= probe, or EMPTY_REF when there is none
            r == EMPTY_REF ==> forall|q: int| 0 <= q < self.g@.ord.len() ==> key_lt(key, #[trigger] key_at(self.store.buffer@, self.g@, q)),
            r != EMPTY_REF ==> {
                &&& in_tree(self.store.buffer@, self.g@, r as int)
                &&& !key_lt(key, self.store.buffer@[r as int].entity.key)
                &&& forall|q: int| self.g@.ng[r as int].pos < q < self.g@.ord.len() ==> key_lt(key, #[trigger] key_at(self.store.buffer@, self.g@, q))
            },
    {
        let mut index = self.root;
        let mut result = EMPTY_REF;
        let ghost mut wa = 0int;
        let ghost mut wb = self.g@.ord.len() as int;
        proof { reveal(sinv); }
        while index != EMPTY_REF
            invariant
                ord_laws::<K>(),
                wf(self.store.buffer@, self.g@, self.root, self.store.unused@),
                window(self.store.buffer@, self.g@, key, wa, wb),
                index == EMPTY_REF ==> wa == wb,
                index != EMPTY_REF ==> in_tree(self.store.buffer@, self.g@, index as int) && wa == self.g@.ng[index as int].a && wb == self.g@.ng[index as int].b,
                result == EMPTY_REF ==> wa == 0,
                result != EMPTY_REF ==> in_tree(self.store.buffer@, self.g@, result as int) && self.g@.ng[result as int].pos == wa - 1 && !key_lt(key, self.store.buffer@[result as int].entity.key),
            decreases wb - wa,
        {
            proof { lemma_window_step(self.store.buffer@, self.g@, self.root, key, index as int); }
            let node = self.node(index);
            match node.entity.key.cmp(&key) {
                Ordering::Equal => return index,
                Ordering::Less => {
                    result = index;
                    proof { wa = self.g@.ng[index as int].pos + 1; }
                    index = node.right;
                },
                Ordering::Greater => {
                    proof { wb = self.g@.ng[index as int].pos; }
                    index = node.left
                },
            }
        }

        result
    }


    #[inline]
    fn insert_new(&mut self, entity: Entity<K, V>, p_index: u32) -> (r: u32)
        requires
            old(self).store.unused@.len() > 0 || old(self).store.buffer@.len() + old(self).store.unused@.len() < EMPTY_REF,
            old(self).store.unused@.len() > 0 ==> (old(self).store.unused@.last() as int) < old(self).store.buffer@.len(),
        ensures
            take_rel(final(self).store.buffer@, final(self).store.unused@, old(self).store.buffer@, old(self).store.unused@, r as int),
            final(self).store.buffer@.len() >= old(self).store.buffer@.len(),
            old(self).store.buffer@.len() < EMPTY_REF ==> final(self).store.buffer@.len() < EMPTY_REF,
            (r as int) < final(self).store.buffer@.len(),
            final(self).store.buffer@[r as int] == new_leaf(p_index, entity),
            forall|i: int| 0 <= i < old(self).store.buffer@.len() && i != r as int ==> #[trigger] final(self).store.buffer@[i] == old(self).store.buffer@[i],
            final(self).root == old(self).root,
            final(self).g == old(self).g,
    {
        let new_index = self.store.get_free_index();
        let new_node = self.node_mut(new_index);
        new_node.parent = p_index;
        new_node.left = EMPTY_REF;
        new_node.right = EMPTY_REF;
        new_node.color = Color::Red;
        new_node.entity = entity;

        new_index
    }

    #[inline]
    fn insert_as_left(&mut self, entity: Entity<K, V>, p_index: u32)
        requires
            ord_laws::<K>(),
            wf(old(self).store.buffer@, old(self).g@, old(self).root, old(self).store.unused@),
            in_tree(old(self).store.buffer@, old(self).g@, p_index as int),
            old(self).store.buffer@[p_index as int].left == EMPTY_REF,
            window(old(self).store.buffer@, old(self).g@, entity.key, old(self).g@.ng[p_index as int].pos, old(self).g@.ng[p_index as int].pos),
            pool_room(old(self).store.buffer@.len() as int, old(self).store.unused@.len() as int),
        ensures
            wf(final(self).store.buffer@, final(self).g@, final(self).root, final(self).store.unused@),
            ents(final(self).store.buffer@, final(self).g@) =~= ents(old(self).store.buffer@, old(self).g@).insert(old(self).g@.ng[p_index as int].pos, entity),
            final(self).store.buffer@.len() >= old(self).store.buffer@.len(),
            forall|i: int| in_tree(old(self).store.buffer@, old(self).g@, i) ==> in_tree(final(self).store.buffer@, final(self).g@, i) && (#[trigger] final(self).store.buffer@[i]).entity == old(self).store.buffer@[i].entity,
    {
        proof { reveal(sinv); assert(old(self).store.unused@.len() > 0 ==> old(self).store.unused@[old(self).store.unused@.len() - 1] == old(self).store.unused@.last()); }
        let new_index = self.insert_new(entity, p_index);

        let parent = self.node_mut(p_index);
        parent.left = new_index;

        if parent.color == Color::Red {
            proof {
                lemma_take_not_in_tree(old(self).store.buffer@, old(self).g@, old(self).root, old(self).store.unused@, self.store.buffer@.len() as int, self.store.unused@, new_index as int);
                self.g@ = lemma_insert_leaf(old(self).store.buffer@, old(self).g@, old(self).root, p_index as int, true, new_index as int, entity, self.store.buffer@);
            }
            let ghost s1 = (self.store.buffer@, self.g@, self.root);
            self.fix_red_black_properties_after_insert(new_index, p_index);
            proof {
                lemma_same_ord_membership(self.store.buffer@, self.g@, self.root, s1.0, s1.1, s1.2);
                lemma_insert_pool(old(self).store.buffer@, old(self).g@, old(self).root, old(self).store.unused@, self.store.buffer@, self.g@, self.store.unused@, new_index as int);
            }
        } else {
            proof {
                lemma_take_not_in_tree(old(self).store.buffer@, old(self).g@, old(self).root, old(self).store.unused@, self.store.buffer@.len() as int, self.store.unused@, new_index as int);
                self.g@ = lemma_insert_leaf(old(self).store.buffer@, old(self).g@, old(self).root, p_index as int, true, new_index as int, entity, self.store.buffer@);
                lemma_cinv_drop_exc(self.store.buffer@, self.g@, self.root, new_index as int);
                lemma_insert_pool(old(self).store.buffer@, old(self).g@, old(self).root, old(self).store.unused@, self.store.buffer@, self.g@, self.store.unused@, new_index as int);
            }
        }
    }

    #[inline]
    fn insert_as_right(&mut self, entity: Entity<K, V>, p_index: u32)
        requires
            ord_laws::<K>(),
            wf(old(self).store.buffer@, old(self).g@, old(self).root, old(self).store.unused@),
            in_tree(old(self).store.buffer@, old(self).g@, p_index as int),
            old(self).store.buffer@[p_index as int].right == EMPTY_REF,
            window(old(self).store.buffer@, old(self).g@, entity.key, old(self).g@.ng[p_index as int].pos + 1, old(self).g@.ng[p_index as int].pos + 1),
            pool_room(old(self).store.buffer@.len() as int, old(self).store.unused@.len() as int),
        ensures
            wf(final(self).store.buffer@, final(self).g@, final(self).root, final(self).store.unused@),
            ents(final(self).store.buffer@, final(self).g@) =~= ents(old(self).store.buffer@, old(self).g@).insert(old(self).g@.ng[p_index as int].pos + 1, entity),
            final(self).store.buffer@.len() >= old(self).store.buffer@.len(),
            forall|i: int| in_tree(old(self).store.buffer@, old(self).g@, i) ==> in_tree(final(self).store.buffer@, final(self).g@, i) && (#[trigger] final(self).store.buffer@[i]).entity == old(self).store.buffer@[i].entity,
    {
        proof { reveal(sinv); assert(old(self).store.unused@.len() > 0 ==> old(self).store.unused@[old(self).store.unused@.len() - 1] == old(self).store.unused@.last()); }
        let new_index = self.insert_new(entity, p_index);

        let parent = self.node_mut(p_index);
        parent.right = new_index;

        if parent.color == Color::Red {
            proof {
                lemma_take_not_in_tree(old(self).store.buffer@, old(self).g@, old(self).root, old(self).store.unused@, self.store.buffer@.len() as int, self.store.unused@, new_index as int);
                self.g@ = lemma_insert_leaf(old(self).store.buffer@, old(self).g@, old(self).root, p_index as int, false, new_index as int, entity, self.store.buffer@);
            }
            let ghost s1 = (self.store.buffer@, self.g@, self.root);
            self.fix_red_black_properties_after_insert(new_index, p_index);
            proof {
                lemma_same_ord_membership(self.store.buffer@, self.g@, self.root, s1.0, s1.1, s1.2);
                lemma_insert_pool(old(self).store.buffer@, old(self).g@, old(self).root, old(self).store.unused@, self.store.buffer@, self.g@, self.store.unused@, new_index as int);
            }
        } else {
            proof {
                lemma_take_not_in_tree(old(self).store.buffer@, old(self).g@, old(self).root, old(self).store.unused@, self.store.buffer@.len() as int, self.store.unused@, new_index as int);
                self.g@ = lemma_insert_leaf(old(self).store.buffer@, old(self).g@, old(self).root, p_index as int, false, new_index as int, entity, self.store.buffer@);
                lemma_cinv_drop_exc(self.store.buffer@, self.g@, self.root, new_index as int);
                lemma_insert_pool(old(self).store.buffer@, old(self).g@, old(self).root, old(self).store.unused@, self.store.buffer@, self.g@, self.store.unused@, new_index as int);
            }
        }
    }


    #[inline]
    fn insert_root(&mut self, entity: Entity<K, V>)
        requires
            ord_laws::<K>(),
            wf(old(self).store.buffer@, old(self).g@, old(self).root, old(self).store.unused@),
            old(self).root == EMPTY_REF,
            pool_room(old(self).store.buffer@.len() as int, old(self).store.unused@.len() as int),
        ensures
            wf(final(self).store.buffer@, final(self).g@, final(self).root, final(self).store.unused@),
            ents(final(self).store.buffer@, final(self).g@) =~= seq![entity],
            final(self).store.buffer@.len() >= old(self).store.buffer@.len(),
    {
        proof { reveal(sinv); assert(old(self).store.unused@.len() > 0 ==> old(self).store.unused@[old(self).store.unused@.len() - 1] == old(self).store.unused@.last()); }
        let new_index = self.store.get_free_index();
        let new_node = self.node_mut(new_index);
        new_node.parent = EMPTY_REF;
        new_node.left = EMPTY_REF;
        new_node.right = EMPTY_REF;
        new_node.color = Color::Black;
        new_node.entity = entity;
        self.root = new_index;
        proof {
            let b0 = old(self).store.buffer@; let g0 = old(self).g@; let b1 = self.store.buffer@; let new = new_index as int;
            lemma_take_not_in_tree(b0, g0, old(self).root, old(self).store.unused@, b1.len() as int, self.store.unused@, new);
            let g1 = G { ord: seq![new_index], ng: Seq::new(b1.len(), |i: int| if i == new { NG { pos: 0, a: 0, b: 1, bh: 1 } } else { NG { pos: -1, a: 0, b: 0, bh: 0 } }) };
            self.g@ = g1;
            reveal(sinv); reveal(cinv);
            assert(g0.ord.len() == 0);
            assert(sorted(b1, g1)) by { reveal(sorted); }
            assert(node_ok(b1, g1, self.root, new));
            assert forall|i: int| in_tree(b1, g1, i) implies #[trigger] node_ok(b1, g1, self.root, i) by { assert(i == new); }
            assert forall|i: int| in_tree(b1, g1, i) implies #[trigger] color_ok(b1, g1, i, -1) by { assert(i == new); }
            assert forall|i: int| 0 <= i < b0.len() && i != new implies (#[trigger] in_tree(b1, g1, i) == in_tree(b0, g0, i)) by { }
            lemma_insert_pool(b0, g0, old(self).root, old(self).store.unused@, b1, g1, self.store.unused@, new);
        }
    }

    #[inline]
    fn insert_entity(&mut self, entity: Entity<K, V>)
        requires
            ord_laws::<K>(),
            wf(old(self).store.buffer@, old(self).g@, old(self).root, old(self).store.unused@),
            forall|q: int| 0 <= q < old(self).g@.ord.len() ==> !key_eq(#[trigger] key_at(old(self).store.buffer@, old(self).g@, q), entity.key),
            pool_room(old(self).store.buffer@.len() as int, old(self).store.unused@.len() as int),
        ensures
            wf(final(self).store.buffer@, final(self).g@, final(self).root, final(self).store.unused@),
            exists|p: int| 0 <= p <= old(self).g@.ord.len() && #[trigger] ents(final(self).store.buffer@, final(self).g@) =~= ents(old(self).store.buffer@, old(self).g@).insert(p, entity),
            final(self).store.buffer@.len() >= old(self).store.buffer@.len(),
            forall|i: int| in_tree(old(self).store.buffer@, old(self).g@, i) ==> in_tree(final(self).store.buffer@, final(self).g@, i) && (#[trigger] final(self).store.buffer@[i]).entity == old(self).store.buffer@[i].entity,
    {
        let mut index = self.root;
        if index == EMPTY_REF {
            proof { reveal(sinv); assert(self.g@.ord.len() == 0); assert(ents(self.store.buffer@, self.g@) =~= Seq::<Entity<K, V>>::empty()); }
            self.insert_root(entity);
            proof { assert(Seq::<Entity<K, V>>::empty().insert(0, entity) =~= seq![entity]); }
            return;
        }

        let key = entity.key;
        let ghost mut wa = 0int;
        let ghost mut wb = self.g@.ord.len() as int;
        proof { reveal(sinv); }

        loop
            invariant
                ord_laws::<K>(),
                key == entity.key,
                self.store.buffer@ == old(self).store.buffer@, self.g@ == old(self).g@, self.root == old(self).root, self.store.unused@ == old(self).store.unused@,
                wf(self.store.buffer@, self.g@, self.root, self.store.unused@),
                forall|q: int| 0 <= q < self.g@.ord.len() ==> !key_eq(#[trigger] key_at(self.store.buffer@, self.g@, q), entity.key),
                pool_room(self.store.buffer@.len() as int, self.store.unused@.len() as int),
                window(self.store.buffer@, self.g@, key, wa, wb),
                in_tree(self.store.buffer@, self.g@, index as int) && wa == self.g@.ng[index as int].a && wb == self.g@.ng[index as int].b,
            decreases wb - wa,
        {
            proof { lemma_window_step(self.store.buffer@, self.g@, self.root, key, index as int); lemma_key_trichotomy(self.store.buffer@[index as int].entity.key, key); }
            let p_index = index;
            let node = self.node(index);
            if key < node.entity.key {
                proof { wb = self.g@.ng[index as int].pos; }
                index = node.left;
                if index == EMPTY_REF {
                    self.insert_as_left(entity, p_index);
                    return;
                }
            } else {
                proof { wa = self.g@.ng[index as int].pos + 1; }
                index = node.right;
                if index == EMPTY_REF {
                    self.insert_as_right(entity, p_index);
                    return;
                }
            }
        }
    }


    // SetTree::index_after: the /repo text (set/tree.rs:59-74) fails `self.node(parent_index)`: `parent_index < len` when the climb
    // reaches the root (finding F4); below is the repaired shape, which verifies.
    #[inline]
    fn index_after_fixed(&self, mut index: u32) -> (r: u32)
        requires
            wf(self.store.buffer@, self.g@, self.root, self.store.unused@),
            in_tree(self.store.buffer@, self.g@, index as int),
        ensures
            self.g@.ng[index as int].pos + 1 == self.g@.ord.len() ==> r == EMPTY_REF,
            self.g@.ng[index as int].pos + 1 < self.g@.ord.len() ==> r == self.g@.ord[self.g@.ng[index as int].pos + 1],
    {
        let ghost i0 = index as int;
        proof { lemma_links(self.store.buffer@, self.g@, self.root, index as int); reveal(sinv); assert(node_ok(self.store.buffer@, self.g@, self.root, index as int)); }
        let node = self.node(index);
        if node.right != EMPTY_REF {
            let r = self.find_left_minimum(node.right);
            proof { reveal(sinv); assert(node_ok(self.store.buffer@, self.g@, self.root, r as int)); assert(self.g@.ord[self.g@.ng[r as int].pos] == r); }
            r
        } else {
            // find first parent where we not right
            let mut parent_index = node.parent;
            while parent_index != EMPTY_REF
                invariant
                    wf(self.store.buffer@, self.g@, self.root, self.store.unused@),
                    in_tree(self.store.buffer@, self.g@, index as int),
                    self.g@.ng[index as int].b == self.g@.ng[i0].pos + 1,
                    parent_index == self.store.buffer@[index as int].parent,
                ensures
                    parent_index != EMPTY_REF ==> self.store.buffer@[parent_index as int].right != index,
                decreases self.g@.ord.len() - range_len(self.g@, index as int),
            {
                proof {
                    reveal(sinv);
                    assert(node_ok(self.store.buffer@, self.g@, self.root, index as int));
                    assert(node_ok(self.store.buffer@, self.g@, self.root, parent_index as int));
                }
                let parent = self.node(parent_index);
                if parent.right != index {
                    proof { assert(self.g@.ord[self.g@.ng[parent_index as int].pos] == parent_index); }
                    break;
                }
                index = parent_index;
                parent_index = parent.parent;
            }
            proof {
                reveal(sinv);
                assert(node_ok(self.store.buffer@, self.g@, self.root, index as int));
                if parent_index != EMPTY_REF {
                    assert(node_ok(self.store.buffer@, self.g@, self.root, parent_index as int));
                    assert(self.g@.ord[self.g@.ng[parent_index as int].pos] == parent_index);
                }
            }
            parent_index
        }
    }


    fn clear(&mut self)
        requires
            wf(old(self).store.buffer@, old(self).g@, old(self).root, old(self).store.unused@),
        ensures
            wf(final(self).store.buffer@, final(self).g@, final(self).root, final(self).store.unused@),
            final(self).g@.ord.len() == 0,
            final(self).root == EMPTY_REF,
            final(self).store.buffer@ == old(self).store.buffer@,
    {
        if self.root == EMPTY_REF {
            proof { reveal(sinv); }
            return;
        }
        let ghost b0 = self.store.buffer@; let ghost g0 = self.g@; let ghost r0 = self.root; let ghost u0 = self.store.unused@;
        self.store.put_back(self.root);
        self.root = EMPTY_REF;
        let ghost mut p: Seq<u32> = seq![r0];
        let ghost mut d: int = 0;
        proof {
            reveal(sinv);
            assert(u0.push(r0) =~= u0 + p);
            assert(bfs_inv(b0, g0, r0, p, 0, false));
        }

        let mut n = 1;
        while n > 0
            invariant
                wf(b0, g0, r0, u0), r0 != EMPTY_REF,
                self.store.buffer@ == b0, self.g@ == g0, self.root == EMPTY_REF,
                self.store.unused@ == u0 + p,
                bfs_inv(b0, g0, r0, p, d, false),
                n as int == p.len() - d,
            decreases g0.ord.len() - d,
        {
            let i0 = self.store.unused.len() - n;
            n = 0;
            let ghost pend = p.len() as int;
            let ghost d0 = d;
            for i in iter: i0..self.store.unused.len()
                invariant
                    wf(b0, g0, r0, u0), r0 != EMPTY_REF,
                    self.store.buffer@ == b0, self.g@ == g0, self.root == EMPTY_REF,
                    self.store.unused@ == u0 + p,
                    bfs_inv(b0, g0, r0, p, d, false),
                    i0 as int == u0.len() + d0, iter.snapshot.end as int == u0.len() + pend,
                    d == d0 + (i - i0), d0 < pend, pend <= p.len(),
                    n as int == p.len() - pend,
            {
                proof { assert((u0 + p)[i as int] == p[d]); reveal(sinv); assert(in_tree(b0, g0, p[d] as int)); }
                let index = self.store.unused[i];
                let node = self.node(index);
                let left = node.left;
                let right = node.right;
                if left != EMPTY_REF {
                    self.store.put_back(left);
                    proof { lemma_bfs_count_le(b0, g0, r0, p, d, false); reveal(sinv); assert(n as int <= p.len() && p.len() <= g0.ord.len() && g0.ord.len() < b0.len() && b0.len() < EMPTY_REF); }
                    n += 1;
                }
                proof {
                    let p1 = lemma_bfs_left(b0, g0, r0, p, d);
                    assert(self.store.unused@ =~= u0 + p1);
                    p = p1;
                }
                if right != EMPTY_REF {
                    self.store.put_back(right);
                    proof { lemma_bfs_count_le(b0, g0, r0, p, d, true); reveal(sinv); assert(n as int <= p.len() && p.len() <= g0.ord.len() && g0.ord.len() < b0.len() && b0.len() < EMPTY_REF); }
                    n += 1;
                }
                proof {
                    let p1 = lemma_bfs_right(b0, g0, r0, p, d);
                    assert(self.store.unused@ =~= u0 + p1);
                    p = p1;
                    d = d + 1;
                }
            }
            proof { lemma_bfs_count_le(b0, g0, r0, p, d, false); }
        }
        proof {
            self.g@ = lemma_clear_finish(b0, g0, r0, u0, p);
        }
    }

    #[inline]
    fn replace_parents_child(&mut self, parent: u32, old_child: u32, new_child: u32)
        requires
            (new_child as int) < old(self).store.buffer@.len(),
            parent == EMPTY_REF || (parent as int) < old(self).store.buffer@.len(),
            parent != new_child,
        ensures
            final(self).g == old(self).g,
            final(self).store.unused == old(self).store.unused,
            final(self).store.buffer@.len() == old(self).store.buffer@.len(),
            final(self).root == (if parent == EMPTY_REF { new_child } else { old(self).root }),
            forall|i: int| 0 <= i < final(self).store.buffer@.len() && i != new_child as int && i != parent as int ==> #[trigger] final(self).store.buffer@[i] == old(self).store.buffer@[i],
            final(self).store.buffer@[new_child as int] == (Node { parent: parent, ..old(self).store.buffer@[new_child as int] }),
            parent != EMPTY_REF ==> final(self).store.buffer@[parent as int] == (if old(self).store.buffer@[parent as int].left == old_child {
                    Node { left: new_child, ..old(self).store.buffer@[parent as int] }
                } else {
                    Node { right: new_child, ..old(self).store.buffer@[parent as int] }
                }),
    {
        self.node_mut(new_child).parent = parent;
        if parent == EMPTY_REF {
            self.root = new_child;
            return;
        }

        let p = self.node_mut(parent);
        // debug_assert dropped

        if p.left == old_child {
            p.left = new_child;
        } else {
            p.right = new_child;
        }
    }
}
}
} // verus!
fn main() {}
