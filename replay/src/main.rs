// Replay driver: runs the *executable form* of contracts on the real code of /repo (a scratch copy with widened
// visibility).  It never decides a property; it is (a) the labelled bounded stand-in for KeyExpList::clear_expired,
// whose body is outside Verus' reach, (b) the search for a concrete failing input behind a failed obligation,
// (c) the reachability witness for the public preconditions.
use i_tree::key::entity::Entity;
use i_tree::key::exp::KeyExpCollection;
use i_tree::key::list::KeyExpList;
use i_tree::key::tree::KeyExpTree;
use i_tree::key::array::IntoArray;
use i_tree::map::sort::MapCollection;
use i_tree::map::tree::MapTree;
use i_tree::set::sort::SetCollection;
use i_tree::set::tree::SetTree;
use i_tree::set::list::SetList;
use i_tree::ExpiredKey;
use i_tree::EMPTY_REF;
use std::cmp::Ordering;

#[derive(Clone, Copy, Debug)]
struct KK(i32, i32); // (key, expiration); ordered by key only
impl PartialEq for KK { fn eq(&self, o: &Self) -> bool { self.0 == o.0 } }
impl Eq for KK {}
impl PartialOrd for KK { fn partial_cmp(&self, o: &Self) -> Option<Ordering> { Some(self.cmp(o)) } }
impl Ord for KK { fn cmp(&self, o: &Self) -> Ordering { self.0.cmp(&o.0) } }
impl ExpiredKey<i32> for KK { fn expiration(&self) -> i32 { self.1 } }

// ---------------------------------------------------------------------------------------------------------------
// bounded stand-in: KeyExpList::clear_expired against its contract
//   ensures  buffer' == [e in buffer | e.exp > time]  and  min_exp' <= every remaining expiration  (given the invariant
//   min_exp <= every stored expiration)
fn clear_expired_bounded(max_n: usize, tpoints: i32) -> (u64, u64, Option<String>) {
    let mut cases: u64 = 0;
    let mut nontrivial: u64 = 0;
    for n in 0..=max_n {
        let mut exps = vec![0i32; n];
        loop {
            let min_e = exps.iter().cloned().min();
            let lower_bounds: Vec<i32> = match min_e { Some(m) => (0..=m).collect(), None => vec![0, tpoints - 1, i32::MAX] };
            for time in 0..tpoints {
                for &lb in &lower_bounds {
                    let mut l = KeyExpList::<KK, i32, i32>::new(4);
                    for (k, &e) in exps.iter().enumerate() {
                        l.buffer.push(Entity::new(KK(k as i32, e), 100 + k as i32));
                    }
                    l.min_exp = lb;
                    l.clear_expired(time);
                    cases += 1;
                    let want: Vec<(i32, i32)> = exps.iter().enumerate().filter(|(_, &e)| e > time).map(|(k, &e)| (k as i32, e)).collect();
                    let got: Vec<(i32, i32)> = l.buffer.iter().map(|e| (e.key.0, e.key.1)).collect();
                    if want.len() != exps.len() { nontrivial += 1; }
                    let vals_ok = l.buffer.iter().all(|e| e.val == 100 + e.key.0);
                    let lb_ok = l.buffer.iter().all(|e| l.min_exp <= e.key.1);
                    if want != got || !vals_ok || !lb_ok {
                        return (cases, nontrivial, Some(format!("exps={:?} min_exp={} time={} -> buffer={:?} min_exp'={} expected={:?}", exps, lb, time, got, l.min_exp, want)));
                    }
                }
            }
            // next assignment of expirations
            let mut i = 0;
            loop {
                if i == n { break; }
                exps[i] += 1;
                if exps[i] < tpoints { break; }
                exps[i] = 0;
                i += 1;
            }
            if i == n { break; }
        }
    }
    (cases, nontrivial, None)
}

// ---------------------------------------------------------------------------------------------------------------
// reproductions of the defects found on the unchanged tree (kept as regression witnesses: they must pass on the fixed tree)
fn finding(which: &str) -> Result<String, String> {
    match which {
        "F1" => {
            let mut t = KeyExpTree::<KK, i32, i32>::new(8); let mut l = KeyExpList::<KK, i32, i32>::new(8);
            for (k, e) in [(1, 5), (2, 7), (3, 9)] { t.insert(KK(k, e), k, 0); l.insert(KK(k, e), k, 0); }
            let a = t.into_ordered_vec(7); let b = l.into_ordered_vec(7);
            let msg = format!("keys (1,exp5),(2,exp7),(3,exp9); into_ordered_vec(7): tree={:?} list={:?} expected=[3]", a, b);
            if a == vec![3] && b == vec![3] { Ok(msg) } else { Err(msg) }
        }
        "F2" => {
            let mut t = KeyExpTree::<KK, i32, i32>::new(8);
            for (k, e) in [(2, 5), (1, 100), (3, 5)] { t.insert(KK(k, e), k, 0); }
            let a = t.into_ordered_vec(50);
            let msg = format!("(2,exp5),(1,exp100),(3,exp5); into_ordered_vec(50): tree={:?} expected=[1]", a);
            if a == vec![1] { Ok(msg) } else { Err(msg) }
        }
        "F3" => {
            let mut t = KeyExpTree::<KK, i32, i32>::new(8);
            for k in [2, 1, 3] { t.insert(KK(k, 100), k * 10, 0); }
            let r = t.get_value(0, KK(1, 0));
            let msg = format!("insert 2,1,3; get_value(0, 1) = {:?} expected Some(10)", r);
            if r == Some(10) { Ok(msg) } else { Err(msg) }
        }
        "F4" => {
            let mut s = SetTree::<i32, i32>::new(8);
            s.insert(7);
            let h = s.first_index_less(&7);
            let a = s.index_after(h); let b = s.index_before(h);
            let msg = format!("one-entry set: index_after(h)={} index_before(h)={} expected EMPTY_REF both", a, b);
            if a == EMPTY_REF && b == EMPTY_REF { Ok(msg) } else { Err(msg) }
        }
        "F5" => {
            let mut l = SetList::<i32>::new(4);
            SetCollection::<i32, i32>::insert(&mut l, 7);
            let a = SetCollection::<i32, i32>::index_after(&l, 0);
            let b = SetCollection::<i32, i32>::index_before(&l, 0);
            let msg = format!("one-entry SetList: index_after(0)={} index_before(0)={} expected EMPTY_REF both", a, b);
            if a == EMPTY_REF && b == EMPTY_REF { Ok(msg) } else { Err(msg) }
        }
        "F6" => {
            let mut t = KeyExpTree::<KK, i32, i32>::new(8);
            for k in 0..1000 { t.insert(KK(k, 1000000), k, 0); }
            let v = t.into_ordered_vec(0);
            let msg = format!("1000 ascending keys: len={} capacity={} (bound 2*len+8)", v.len(), v.capacity());
            if v.capacity() <= 2 * v.len() + 8 { Ok(msg) } else { Err(msg) }
        }
        _ => Err("unknown finding".to_string()),
    }
}

fn main() {
    let args: Vec<String> = std::env::args().collect();
    match args.get(1).map(|s| s.as_str()) {
        Some("clear-expired") => {
            let max_n: usize = args[2].parse().unwrap();
            let tp: i32 = args[3].parse().unwrap();
            let (cases, nontrivial, fail) = clear_expired_bounded(max_n, tp);
            match fail {
                None => println!("{{\"ok\": true, \"cases\": {}, \"nontrivial\": {}, \"max_n\": {}, \"tpoints\": {}}}", cases, nontrivial, max_n, tp),
                Some(f) => { println!("{{\"ok\": false, \"cases\": {}, \"counterexample\": {:?}}}", cases, f); std::process::exit(1); }
            }
        }
        Some("finding") => {
            match finding(&args[2]) {
                Ok(m) => println!("PASS {} {}", args[2], m),
                Err(m) => { println!("FAIL {} {}", args[2], m); std::process::exit(1); }
            }
        }
        _ => { eprintln!("usage: replay clear-expired <max_n> <tpoints> | finding <F1..F6>"); std::process::exit(2); }
    }
    let _ = (MapTree::<i32, i32>::new(8).is_empty(),);
}
