use crate::seg::entity::Entity;
use crate::{Expiration, ExpiredVal};

#[derive(Clone)]
pub(super) struct Chunk<E, V> {
    pub(super) buffer: Vec<Entity<E, V>>,
}

impl<E: Expiration, V: ExpiredVal<E>> Chunk<E, V> {
    #[inline]
    pub(super) fn new() -> Self {
        Self {
            buffer: vec![],
        }
    }

    #[inline]
    pub(super) fn is_empty(&self) -> bool {
        self.buffer.is_empty()
    }

    #[inline]
    pub(super) fn entity(&self, index: usize) -> &Entity<E, V> {
        unsafe { self.buffer.get_unchecked(index) }
    }

    #[inline]
    pub(super) fn insert(&mut self, entity: Entity<E, V>) {
        // self.clear_expired(time);
        // self.min_exp = self.min_exp.min(entity.val.expiration());
        self.buffer.push(entity);
    }
    //
    // #[inline]
    // pub(super) fn clear_expired(&mut self, time: E) {
    //     if self.min_exp >= time {
    //         return;
    //     }
    //     let mut new_min_exp = E::max_expiration();
    //     self.buffer.retain(|entity| {
    //         let exp = entity.val.expiration();
    //         let keep = exp > time;
    //         if keep {
    //             new_min_exp = new_min_exp.min(exp);
    //         }
    //         keep
    //     });
    //     self.min_exp = new_min_exp;
    // }

    #[inline]
    pub(super) fn clear(&mut self) {
        // self.min_exp = E::max_expiration();
        self.buffer.clear();
    }
}
