#!/usr/bin/env python3
"""prints DESIGN.md section 12 tables from seeded/*/matrix.txt and harmless/*/*.result"""
import glob, os, re, json
V = os.path.dirname(os.path.dirname(os.path.abspath(__file__)))
# fallback for rows without a full matrix: the own-property run of tools/own_all.sh (seeded/own_checks.txt)
OWN = {}
op = os.path.join(V, 'seeded', 'own_checks.txt')
if os.path.exists(op):
    for l in open(op):
        mo = re.match(r'^(\w+) (C\d\d) :: *(VIOLATION|OK|INCONCLUSIVE)?(.*no-failing-input-found)?', l)
        if mo and mo.group(3):
            OWN[mo.group(1)] = mo.group(3) + (' no-failing-input-found' if mo.group(4) else '') + ' (own check only)'
print('| seeded change | file(s) | what it does | own check | other checks raising VIOLATION | undecided (exit 2) |')
print('|---|---|---|---|---|---|')
for d in sorted(glob.glob(os.path.join(V, 'seeded', '*'))):
    if not os.path.isdir(d):
        continue
    name = os.path.basename(d)
    pid = name.split('_')[0]
    patch = open(os.path.join(d, 'patch.diff')).read()
    files = sorted(set(f.replace('src/', '') for f in re.findall(r'^\+\+\+ b/(\S+)', patch, flags=re.M)))
    notes = open(os.path.join(d, 'agent_notes.md')).read() if os.path.exists(os.path.join(d, 'agent_notes.md')) else ''
    what = ''
    for l in notes.split('\n'):
        l = l.strip(' -*')
        if len(l) > 40 and not l.startswith('#'):
            what = re.sub(r'\s+', ' ', l)[:150]
            break
    m = {}
    mp = os.path.join(d, 'matrix.txt')
    if os.path.exists(mp):
        for l in open(mp):
            p = l.split()
            if len(p) >= 2:
                m[p[0]] = ' '.join(p[1:])
    own = m.get(pid) or OWN.get(name, 'not run')
    viol = [k for k, v in sorted(m.items()) if v.startswith('VIOLATION') and k != pid]
    inc = [k for k, v in sorted(m.items()) if v.startswith('INCONCLUSIVE')]
    print('| %s | %s | %s | %s | %s | %s |' % (name, ', '.join(files), what.replace('|', '/'), own, ' '.join(viol), ' '.join(inc)))
print()
print('| harmless edit | kind / place | result over the 20 checks |')
print('|---|---|---|')
for rd in sorted(glob.glob(os.path.join(V, 'harmless', '*'))):
    if not os.path.isdir(rd):
        continue
    idx = {}
    ip = os.path.join(rd, 'INDEX.md')
    if os.path.exists(ip):
        for l in open(ip):
            p = [x.strip() for x in l.split('|')]
            if len(p) >= 4 and re.match(r'^[gh]\d+$', p[0]):
                idx['h' + p[0][1:]] = '%s; %s; %s' % (p[1], p[2], p[3])
    for r in sorted(glob.glob(os.path.join(rd, '*.result'))):
        h = os.path.basename(r)[:-7]
        res = [l.split()[:2] for l in open(r) if l.strip()]
        ok = sum(1 for x in res if x[1] == 'OK')
        inc = [x[0] for x in res if x[1] == 'INCONCLUSIVE']
        vio = [x[0] for x in res if x[1] == 'VIOLATION']
        print('| %s/%s | %s | %d OK%s%s |' % (os.path.basename(rd), h, idx.get(h, ''), ok, (', undecided: ' + ' '.join(inc)) if inc else '', (', **VIOLATION: ' + ' '.join(vio) + '**') if vio else ''))

# rounds whose full runs were not repeated with the final machinery: the screen (tools/screen.sh: extract + Verus on every unit that
# reads a file the patch touches; a unit that verifies means that every check reading only that text is OK)
sp = os.path.join(V, 'harmless', 'screen.txt')
if os.path.exists(sp):
    print()
    print('| harmless edit (rounds 1-3, cargo fmt, round 5: screen with the final machinery) | unit | Verus on the merged text |')
    print('|---|---|---|')
    for l in open(sp):
        mo = re.match(r'^(\S+) (\w+) :: (.*?) ::(.*)$', l.strip())
        if not mo:
            continue
        res = mo.group(3)
        if res.startswith('verification results::'):
            res = res.replace('verification results::', '').strip()
            if ', 0 errors' not in res:
                res += ' - undecided after classification (exit 2), no VIOLATION'
        else:
            res = 'does not compile after the merge - undecided (exit 2)'
        print('| %s | %s | %s |' % (mo.group(1).replace('_', '/', 1), mo.group(2), res))

