#[derive(PartialEq, Clone, Copy)]
pub(super) enum Color {
    Red,
    Black,
}

#[derive(Clone)]
pub(super) struct Node<V> {
    pub(super) parent: u32,
    pub(super) left: u32,
    pub(super) right: u32,
    pub(super) color: Color,
    pub(super) value: V,
}

impl<V: Clone + Default> Default for Node<V> {
    #[inline]
    fn default() -> Self {
        Self {
            parent: 0,
            left: 0,
            right: 0,
            color: Color::Red,
            value: V::default(),
        }
    }
}