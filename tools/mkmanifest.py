#!/usr/bin/env python3
"""regenerates /verif/MANIFEST.json from contracts/property_map.json (claimed properties) and contracts/manifest_meta.json"""
import json, os
V = os.path.dirname(os.path.dirname(os.path.abspath(__file__)))
pm = json.load(open(os.path.join(V, 'contracts/property_map.json')))
meta = json.load(open(os.path.join(V, 'contracts/manifest_meta.json')))
props = [json.loads(l) for l in open(os.path.join(V, 'properties.jsonl'))]
checks, na = [], []
for p in props:
    pid = p['id']
    m = meta['properties'].get(pid, {})
    if pid in pm and not m.get('not_applicable'):
        checks.append({
            'property_id': pid,
            'quick_cmd': 'bin/check %s --tier quick' % pid,
            'thorough_cmd': 'bin/check %s --tier thorough' % pid,
            'evidence_file': 'evidence/%s.json' % pid,
            'replay_cmd_template': 'bin/check %s --replay {path}' % pid,
            'engine': m.get('engine', 'verus'),
            'level_claimed': {'category': pm[pid].get('level', 'proof'),
                              'text': m.get('level_text') or ('Unbounded deductive proof (Verus; Kani where named) of the real functions of /repo against contracts taken from the property: ' + pm[pid].get('explanation', '')),
                              'design_ref': m.get('design_ref', 'DESIGN.md §4 ' + pid)},
            'level_note': m.get('level_note') or ('Assumes: ' + '; '.join(pm[pid].get('assumptions', [])) + '. Trusted: Verus/z3/rustc (Kani/CBMC where used), the extractor transformations T0-T25 (mechanical, counted in the evidence), the assume_specification / external_body items listed in the evidence.'),
            'technique': m.get('technique', 'contract-based deductive verification (Verus) of the real functions, extracted on every run'),
        })
    else:
        na.append({'property_id': pid, 'reason': m.get('na_reason', 'check not built yet in this session; see DESIGN.md §10 for the order of work')})
man = {
    'version': 1,
    'setup_cmd': 'bin/setup',
    'hooks': meta['hooks'],
    'engines': meta['engines'],
    'checks': checks,
    'notes': meta.get('notes', ''),
    'not_applicable': na,
}
json.dump(man, open(os.path.join(V, 'MANIFEST.json'), 'w'), indent=1)
print('claimed', len(checks), 'not claimed', len(na))
