use std::cmp::Ordering;
use crate::EMPTY_REF;
use crate::set::sort::{KeyValue, SetCollection};

pub struct SetList<V> {
    pub(super) buffer: Vec<V>,
}

impl<V> SetList<V> {
    #[inline(always)]
    pub fn new(capacity: usize) -> Self {
        Self {
            buffer: Vec::with_capacity(capacity)
        }
    }
}

impl<K: Ord + Copy, V: KeyValue<K>> SetCollection<K, V> for SetList<V> {
    #[inline]
    fn is_empty(&self) -> bool {
        self.buffer.is_empty()
    }

    #[inline]
    fn insert(&mut self, val: V) {
        let index = self
            .buffer
            .binary_search_by_key(&val.key(), |v| v.key())
            .unwrap_or_else(|index| index);
        self.buffer.insert(index, val);
    }

    #[inline]
    fn delete(&mut self, key: &K) {
        if let Ok(index) = self.buffer.binary_search_by_key(key, |v| *v.key()) {
            self.buffer.remove(index);
        }
    }

    #[inline]
    fn delete_by_index(&mut self, index: u32) {
        self.buffer.remove(index as usize);
    }

    #[inline]
    fn get_value(&self, key: &K) -> Option<&V> {
        if let Ok(index) = self.buffer.binary_search_by_key(&key, |v| v.key()) {
            Some(unsafe { self.buffer.get_unchecked(index) })
        } else {
            None
        }
    }

    #[inline]
    fn index_after(&self, index: u32) -> u32 {
        let next = index as usize + 1;
        if next < self.buffer.len() {
            next as u32
        } else {
            EMPTY_REF
        }
    }

    fn index_before(&self, index: u32) -> u32 {
        if index > 0 {
            index - 1
        } else {
            EMPTY_REF
        }
    }

    #[inline]
    fn value_by_index(&self, index: u32) -> &V {
        unsafe { self.buffer.get_unchecked(index as usize) }
    }

    #[inline]
    fn value_by_index_mut(&mut self, index: u32) -> &mut V {
        unsafe { self.buffer.get_unchecked_mut(index as usize) }
    }

    #[inline]
    fn first_index_less(&self, key: &K) -> u32 {
        match self.buffer.binary_search_by(|e| e.key().cmp(key)) {
            Ok(index) => index as u32,
            Err(index) => {
                if index > 0 {
                    (index - 1) as u32
                } else {
                    EMPTY_REF
                }
            }
        }
    }

    #[inline]
    fn first_index_less_by<F>(&self, f: F) -> u32
    where
        F: Fn(&K) -> Ordering,
    {
        match self.buffer.binary_search_by(|v| f(v.key())) {
            Ok(index) => index as u32,
            Err(index) => {
                if index > 0 {
                    (index - 1) as u32
                } else {
                    EMPTY_REF
                }
            }
        }
    }

    #[inline]
    fn clear(&mut self) {
        self.buffer.clear();
    }
}