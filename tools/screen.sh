#!/bin/bash
# quick screen of a patch: which units read a file the patch touches, and does each of them still verify (extract + Verus only;
# no classification).  usage: tools/screen.sh <patch.diff> ...   -> one line per patch and unit
cd /verif
for f in "$@"; do
  f=$(realpath $f); name=$(basename $(dirname $f))_$(basename $f .diff); R=/var/tmp/screen/$name
  rm -rf $R; mkdir -p $R; cp -r /repo/src /repo/Cargo.toml $R/
  (cd $R && patch -p1 -s < $f) || { echo "$name patch-failed"; continue; }
  for u in map set key seg lists; do
    files=$(grep -o "^//@ file [^ ]*" contracts/$u.vrs | awk '{print $3}')
    hit=0; for x in $files; do grep -q "^+++ b/$x" $f && hit=1; done
    [ $hit = 1 ] || continue
    out=$(VW=/var/tmp/vw_screen REPO=$R tools/dev.sh $u 2>&1)
    res=$(echo "$out" | grep -o "verification results:: .*" | head -1)
    [ -z "$res" ] && res="NO-RESULT: $(echo "$out" | grep -m1 "^error" | cut -c1-160)"
    echo "$name $u :: $res :: $(echo "$out" | grep -m1 "^error" | cut -c1-120)"
  done
  rm -rf $R
done
