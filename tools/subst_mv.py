RULES = [
 (r'old\(self\)\.store\.buffer@', '\x01'),
 (r'final\(self\)\.store\.buffer@', '\x02'),
 (r'\bself\.store\.buffer@', '\x03'),
 (r'\br\.store\.buffer@', '\x04'),
 (r'(?<![\w.])store\.buffer@', 'mv(store.buffer@)'),
 ('\x01', 'mv(old(self).store.buffer@)'),
 ('\x02', 'mv(final(self).store.buffer@)'),
 ('\x03', 'mv(self.store.buffer@)'),
 ('\x04', 'mv(r.store.buffer@)'),
]
