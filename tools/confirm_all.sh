#!/bin/bash
# confirms every seeded change that has no confirm.txt yet (scratch worktrees of /repo, removed afterwards)
cd /verif
for d in seeded/*_agent*; do
  [ -f $d/confirm.txt ] && continue
  tools/confirm_seed.sh $d > $d/confirm.txt 2>&1
done
echo ALLDONE
