use crate::{Expiration, ExpiredKey, EMPTY_REF};
use crate::key::list::KeyExpList;
use crate::key::node::{Color, Node};
use crate::key::tree::KeyExpTree;

pub trait IntoArray<E, V> {
    fn into_ordered_vec(self, time: E) -> Vec<V>;
}

impl<K: ExpiredKey<E>, E: Expiration, V: Copy> IntoArray<E, V> for KeyExpList<K, E, V> {
    #[inline]
    fn into_ordered_vec(mut self, time: E) -> Vec<V> {
        self.clear_expired(time);
        self.buffer.iter().map(|e|e.val).collect()
    }
}


impl<K: ExpiredKey<E>, E: Expiration, V: Copy> IntoArray<E, V> for KeyExpTree<K, E, V> {
    #[inline]
    fn into_ordered_vec(mut self, time: E) -> Vec<V> {
        self.create_ordered_list(time)
    }
}

struct StackNode {
    index: u32,
    left: u32,
    right: u32
}

impl StackNode {
    fn new<K, E, V>(index: u32, node: &Node<K, E, V>) -> Self {
        Self {
            index,
            left: node.left,
            right: node.right,
        }
    }
}

impl<K: ExpiredKey<E>, E: Expiration, V: Copy> KeyExpTree<K, E, V> {

    #[inline]
    fn create_ordered_list(&mut self, time: E) -> Vec<V> {
        let height = self.height();
        let mut stack = Vec::with_capacity(height);
        let mut list = Vec::with_capacity(self.store.buffer.len() - self.store.unused.len() - 1);

        if self.root == EMPTY_REF {
            return list;
        }

        stack.push(StackNode::new(self.root, self.node(self.root)));

        while !stack.is_empty() {
            let last_stack_index = stack.len() - 1;
            let s = &mut stack[last_stack_index];

            if s.left != EMPTY_REF {
                // go down left
                let index = s.left;
                // to skip next time
                s.left = EMPTY_REF;

                stack.push(StackNode::new(index, self.node(index)));
            } else {
                if s.index != EMPTY_REF {
                    let index = s.index;
                    // to skip next time
                    s.index = EMPTY_REF;

                    let node = self.node(index);

                    if node.is_not_expired(time) {
                        list.push(node.entity.val);
                    }
                }

                if s.right != EMPTY_REF {
                    // go down right
                    let index = s.right;
                    // to skip next time
                    s.right = EMPTY_REF;

                    stack.push(StackNode::new(index, self.node(index)));
                } else {
                    // go up
                    stack.pop();
                }
            }
        }

        list
    }

    #[inline]
    fn height(&self) -> usize {
        if self.root == EMPTY_REF { return 0; }
        let mut node = self.node(self.root);
        let mut height = 1;
        while node.left != EMPTY_REF {
            node = self.node(node.left);
            if node.color == Color::Black {
                height += 1;
            }
        }

        height << 1
    }
}
