#!/bin/bash
# tools/own_glob.sh '<glob under seeded/>' [parallel] [logfile]
cd /verif
ls -d seeded/$1 | xargs -P ${2:-3} -I{} bash -c 'tools/own.sh {} 2>&1 | grep -v "^WARNING" | grep -o "^[A-Za-z0-9_]* C[0-9][0-9] ::\|failing input[^|]\{0,160\}\|VIOLATION[^|]*\|INCONCLUSIVE[^|]\{0,300\}\|OK property[^|]*" | tr "\n" " "; echo' > ${3:-/var/tmp/own_glob.log} 2>&1
echo OWN-DONE >> ${3:-/var/tmp/own_glob.log}
