#!/usr/bin/env python3
"""Extractor: builds one Verus file per unit from /repo's *current* source text plus the
contract overlay in /verif/contracts/<unit>.vrs.

The overlay is a Verus source file.  Between `//@ file <relpath> [select=<regex>]` and
`//@ end-file` it holds an annotated copy of a /repo file: every line of the (transformed)
/repo file as of the base commit (`contracts/base/`), in order, plus inserted annotation lines
(contracts, invariants, proof blocks, ghost lets).  On every run the extractor
  1. transforms the base text and the current /repo text with the same mechanical rules T0..T15,
  2. classifies the overlay lines into code lines (matched against the base, in order) and
     annotation lines,
  3. diffs base against current and emits the *current* code lines with the annotation lines
     re-inserted at their anchors (a merge in which the overlay side only ever inserts).
So the code that Verus sees is always the text of /repo's working tree; what the transformation
drops or rewrites is counted and reported.
"""
import difflib
import os
import re
import sys

# --------------------------------------------------------------------------------------------
# mechanical transformations of /repo text (applied identically to base and current)
# --------------------------------------------------------------------------------------------

class Counts(dict):
    def bump(self, k, n=1):
        self[k] = self.get(k, 0) + n


def _find_matching(text, start, open_ch, close_ch):
    """text[start] == open_ch; returns index of the matching close_ch (no string awareness needed
    except for double-quoted strings, which are skipped)."""
    depth = 0
    i = start
    n = len(text)
    while i < n:
        c = text[i]
        if c == '"':
            i += 1
            while i < n and text[i] != '"':
                if text[i] == '\\':
                    i += 1
                i += 1
        elif c == open_ch:
            depth += 1
        elif c == close_ch:
            depth -= 1
            if depth == 0:
                return i
        i += 1
    return -1


def _split_top_commas(s):
    parts, depth, cur, i = [], 0, [], 0
    while i < len(s):
        c = s[i]
        if c == '"':
            j = i + 1
            while j < len(s) and s[j] != '"':
                if s[j] == '\\':
                    j += 1
                j += 1
            cur.append(s[i:j + 1])
            i = j + 1
            continue
        if c in '([{':
            depth += 1
        elif c in ')]}':
            depth -= 1
        if c == ',' and depth == 0:
            parts.append(''.join(cur))
            cur = []
        else:
            cur.append(c)
        i += 1
    parts.append(''.join(cur))
    return parts


def strip_cfg_test(lines, counts):
    """T1: drop `#[cfg(test)]` and the item that follows it."""
    out = []
    i = 0
    while i < len(lines):
        txt, no = lines[i]
        if txt.strip() == '#[cfg(test)]':
            counts.bump('T1_cfg_test_items_dropped')
            i += 1
            # the following item: up to the line where brace depth returns to 0 (or a `;` line)
            depth = 0
            seen_open = False
            while i < len(lines):
                t = lines[i][0]
                depth += t.count('{') - t.count('}')
                if '{' in t:
                    seen_open = True
                i += 1
                if (seen_open and depth == 0) or (not seen_open and t.rstrip().endswith(';')):
                    break
            continue
        if txt.lstrip().startswith('//!'):
            # T1b: an inner doc comment (`//!`) is only legal at the head of a file / module; it is a comment
            counts.bump('T1b_inner_doc_comment')
            txt = txt.replace('//!', '// ', 1)
        out.append((txt, no))
        i += 1
    return out


_MACROS = [('debug_assert!', 'T3_debug_assert'), ('assert_eq!', 'T3_assert_eq'), ('assert!', 'T3_assert')]


def rewrite_asserts(lines, counts):
    """T3: debug_assert!(c, msg..) / assert!(c, ..) -> assert(c);  assert_eq!(a, b) -> assert(a == b);
    multi-line invocations collapse onto their first line."""
    out = []
    i = 0
    while i < len(lines):
        txt, no = lines[i]
        s = txt.lstrip()
        hit = None
        if not s.startswith('//'):
            for m, key in _MACROS:
                if s.startswith(m + '('):
                    hit = (m, key)
                    break
        if not hit:
            out.append((txt, no))
            i += 1
            continue
        m, key = hit
        # gather lines until the parenthesis closes
        j = i
        buf = lines[i][0]
        while True:
            start = buf.index(m) + len(m)
            end = _find_matching(buf, start, '(', ')')
            if end >= 0 or j + 1 >= len(lines):
                break
            j += 1
            buf = buf + '\n' + lines[j][0]
        if end < 0:
            out.append((txt, no))
            i += 1
            continue
        args = [a.strip() for a in _split_top_commas(buf[start + 1:end].replace('\n', ' '))]
        args = [a for a in args if a != '']
        indent = txt[:len(txt) - len(s)]
        if m == 'assert_eq!':
            cond = '%s == %s' % (args[0], args[1])
        else:
            cond = args[0]
        cond = re.sub(r'\s+', ' ', cond)
        out.append(('%sassert(%s);' % (indent, cond), no))
        counts.bump(key)
        i = j + 1
    return out


_GU = re.compile(r'unsafe \{ ((?:[^{}]|\{[^{}]*\})*?)\.get_unchecked(_mut)?\(((?:[^()]|\([^()]*\))*)\) \}')


def rewrite_unchecked(lines, counts):
    """T2: unsafe { X.get_unchecked(i) } -> (&X[i]);  get_unchecked_mut -> (&mut X[i]).
    The unsafe precondition i < len becomes a proof obligation."""
    out = []
    for txt, no in lines:
        if 'get_unchecked' in txt and not txt.lstrip().startswith('//'):
            def rep(mo):
                counts.bump('T2_get_unchecked')
                return '(&%s%s[%s])' % ('mut ' if mo.group(2) else '', mo.group(1), mo.group(3))
            txt = _GU.sub(rep, txt)
        out.append((txt, no))
    return out


_HEAD = re.compile(r'^\s*(?:pub(?:\([a-z]+\))? )?(?:fn|while|loop|for)\b.*\S \{$')


def split_block_heads(lines, counts):
    """T0: `fn f(..) -> T {`, `while c {`, `loop {`, `for x in r {` -> the opening brace moves to its own
    line, so that contract / invariant clauses can be inserted in between."""
    out = []
    for txt, no in lines:
        t = txt.rstrip()
        if _HEAD.match(t) or re.match(r'^\s*loop \{$', t):
            indent = t[:len(t) - len(t.lstrip())]
            out.append((t[:-2].rstrip(), no))
            out.append((indent + '{', no))
            counts.bump('T0_block_head_split')
        elif re.match(r'^\s*\{\s*$', t):
            out.append((t, no))
        else:
            out.append((txt.rstrip('\n'), no))
    return out


def _negate(cond):
    """textual negation of a simple condition (used by T19 only; falls back to `!(cond)`)"""
    c = cond.strip()
    if re.match(r'^!\s*[\w.\[\]]+(\(\))?$', c) or re.match(r'^!\([^()]*\)$', c):
        return c[1:].strip()
    if '&&' in c or '||' in c:
        return '!(%s)' % c
    for a, b in ((' == ', ' != '), (' != ', ' == '), (' >= ', ' < '), (' <= ', ' > '), (' > ', ' <= '), (' < ', ' >= ')):
        if c.count(a) == 1 and not any(c.count(x) for x, _ in ((' == ', 0), (' != ', 0), (' >= ', 0), (' <= ', 0), (' > ', 0), (' < ', 0)) if x != a):
            return c.replace(a, b)
    if re.match(r'^[\w.\[\]]+(\([^()]*\))?(\.[\w]+(\([^()]*\))?)*$', c):
        return '!' + c
    return '!(%s)' % c


def normalise_loop_break(lines, counts):
    """T19: `loop { if C { break; } BODY }` (the first statement of the loop is the only exit test) -> `while !C { BODY }`: the
    two are the same loop; the normal form lets invariants written for either spelling attach."""
    out = []
    i = 0
    n = len(lines)
    while i < n:
        t = lines[i][0]
        if re.match(r'^\s*loop$', t) and i + 4 < n and re.match(r'^\s*\{$', lines[i + 1][0]):
            ind = t[:len(t) - len(t.lstrip())]
            m = re.match(r'^\s*if (.+) \{$', lines[i + 2][0])
            if m and re.match(r'^\s*break;$', lines[i + 3][0]) and re.match(r'^\s*\}$', lines[i + 4][0]):
                out.append((ind + 'while ' + _negate(m.group(1)), lines[i][1]))
                out.append((ind + '{', lines[i + 1][1]))
                counts.bump('T19_loop_break_to_while')
                i += 5
                continue
        out.append(lines[i])
        i += 1
    return out


def join_method_chains(lines, counts):
    """T21: a line that starts with `.` continues the expression of the line before it (a method chain broken across lines):
    it is joined to that line, so that the layout of a chain does not matter."""
    out = []
    for txt, no in lines:
        t = txt.strip()
        if out and re.match(r'^\.[A-Za-z_]', t) and not out[-1][0].strip().startswith('//'):
            out[-1] = (out[-1][0].rstrip() + t, out[-1][1])
            counts.bump('T21_chain_line_joined')
        elif out and t == '{' and re.match(r'^(\} else )?(if|match) ', out[-1][0].strip()) and not out[-1][0].rstrip().endswith(('{', ';', '}')):
            # the `{` of an `if` / `match` whose head was broken across lines
            out[-1] = (out[-1][0].rstrip() + ' {', out[-1][1])
            counts.bump('T21_chain_line_joined')
        else:
            out.append((txt, no))
    return out


_FOR = re.compile(r'^(\s*)for (.+?) in (.+)$')


def rewrite_for_loops(lines, counts):
    """T4: `for` loops over something other than a range (Verus supports ranges natively).
       T4b  for x in X.iter_mut() { B }   ->  for x_i in 0..X.len() { let x = &mut X[x_i]; B }
       T4a  for p in IT { B }  /  for p in &mut IT { B }
               ->  let mut p_iter = IT;  (omitted for `&mut IT`)  loop { match <it>.next() { Some(p) => { B } None => { break; } } }
            (Rust's own desugaring of a `for` over an Iterator)"""
    out = []
    i = 0
    n = len(lines)
    uid = 0
    while i < n:
        txt, no = lines[i]
        mo = _FOR.match(txt)
        if not mo or txt.lstrip().startswith('//') or i + 1 >= n or lines[i + 1][0] != mo.group(1) + '{':
            out.append((txt, no))
            i += 1
            continue
        ind, pat, it = mo.group(1), mo.group(2), mo.group(3).strip()
        if '..' in it:
            out.append((txt, no))   # a range
            i += 1
            continue
        # body: lines up to the matching `}` at the same indentation
        j = i + 2
        while j < n and lines[j][0] != ind + '}':
            j += 1
        body = lines[i + 2:j]
        name = re.sub(r'\W', '_', pat)
        if it.endswith('.iter_mut()'):
            coll = it[:-len('.iter_mut()')]
            counts.bump('T4b_iter_mut_loop')
            out.append(('%sfor %s_i in 0..%s.len()' % (ind, name, coll), no))
            out.append((ind + '{', lines[i + 1][1]))
            out.append(('%s    let %s = &mut %s[%s_i];' % (ind, pat, coll, name), no))
            out.extend(body)
            out.append((ind + '}', lines[j][1] if j < n else no))
        else:
            counts.bump('T4a_iterator_loop')
            if it.startswith('&mut '):
                itexpr = it[len('&mut '):]
            else:
                out.append(('%slet mut %s_iter = %s;' % (ind, name, it), no))
                itexpr = '%s_iter' % name
            out.append((ind + 'loop', no))
            out.append((ind + '{', lines[i + 1][1]))
            out.append(('%s    match %s.next() {' % (ind, itexpr), no))
            out.append(('%s        Some(%s) => {' % (ind, pat), no))
            for t, ln in body:
                out.append((('        ' + t) if t.strip() else t, ln))
            out.append(('%s        }' % ind, no))
            out.append(('%s        None => {' % ind, no))
            out.append(('%s            break;' % ind, no))
            out.append(('%s        }' % ind, no))
            out.append(('%s    }' % ind, no))
            out.append((ind + '}', lines[j][1] if j < n else no))
        i = j + 1
    return out


_RETAIN = re.compile(r'^(\s*)(.+)\.retain\(\|(\w+)\| \{$')
_RETAIN1 = re.compile(r'^(\s*)(.+)\.retain\(\|(\w+)\| ([^{}]+)\);$')


def rewrite_retain(lines, counts):
    """T24: `X.retain(|s| { BODY; keep });` -> the in-order filter loop that `Vec::retain` is documented to be ("visits each
    element exactly once in the original order", removes those for which the closure returns false, keeps the order of the rest):

        let mut retain_i: usize = 0;
        while retain_i < X.len() {
            let retain_keep = { let s = &X[retain_i]; BODY; keep };       // the closure body, verbatim
            if retain_keep { retain_i += 1; } else { X.remove(retain_i); }
        }

    The closure body is the code of /repo, unchanged; what is assumed is std's contract of `Vec::retain` (a closure that
    captures `&mut` state is outside Verus).  The real function is cross-checked against the same contract by the bounded job."""
    out = []
    i = 0
    n = len(lines)
    while i < n:
        txt, no = lines[i]
        mo = _RETAIN.match(txt)
        m1 = _RETAIN1.match(txt) if not mo else None
        if m1 and not txt.lstrip().startswith('//'):
            # the closure is one expression on the same line: `X.retain(|s| EXPR);`
            ind, coll, var, expr = m1.group(1), m1.group(2).strip(), m1.group(3), m1.group(4).strip()
            counts.bump('T24_retain_loop')
            out.append(('%slet mut retain_i: usize = 0;' % ind, no))
            out.append(('%swhile retain_i < %s.len()' % (ind, coll), no))
            out.append((ind + '{', no))
            out.append(('%s    let retain_keep = {' % ind, no))
            out.append(('%s        let %s = &%s[retain_i];' % (ind, var, coll), no))
            out.append(('%s        %s' % (ind, expr), no))
            out.append(('%s    };' % ind, no))
            out.append(('%s    if retain_keep {' % ind, no))
            out.append(('%s        retain_i += 1;' % ind, no))
            out.append(('%s    } else {' % ind, no))
            out.append(('%s        %s.remove(retain_i);' % (ind, coll), no))
            out.append(('%s    }' % ind, no))
            out.append((ind + '}', no))
            i += 1
            continue
        if not mo or txt.lstrip().startswith('//'):
            out.append((txt, no))
            i += 1
            continue
        ind, coll, var = mo.group(1), mo.group(2).strip(), mo.group(3)
        j = i + 1
        while j < n and lines[j][0].rstrip() != ind + '});':
            j += 1
        if j >= n:
            out.append((txt, no))
            i += 1
            continue
        counts.bump('T24_retain_loop')
        out.append(('%slet mut retain_i: usize = 0;' % ind, no))
        out.append(('%swhile retain_i < %s.len()' % (ind, coll), no))
        out.append((ind + '{', no))
        out.append(('%s    let retain_keep = {' % ind, no))
        out.append(('%s        let %s = &%s[retain_i];' % (ind, var, coll), no))
        for t, ln in lines[i + 1:j]:
            out.append((('    ' + t) if t.strip() else t, ln))
        out.append(('%s    };' % ind, lines[j][1]))
        out.append(('%s    if retain_keep {' % ind, no))
        out.append(('%s        retain_i += 1;' % ind, no))
        out.append(('%s    } else {' % ind, no))
        out.append(('%s        %s.remove(retain_i);' % (ind, coll), no))
        out.append(('%s    }' % ind, no))
        out.append((ind + '}', lines[j][1]))
        i = j + 1
    return out


_EXTREV = re.compile(r'^(\s*)(.+)\.extend\(\((.+?)\.\.(.+)\)\.rev\(\)\);$')


def rewrite_std_calls(lines, counts):
    """T5 (pattern form): `X.extend((A..B).rev());` -> `extend_rev_range(&mut X, A, B);` and `X.capacity()` -> `unused_capacity(&X)`:
    calls of std functions that Verus has no specification for (iterator adapters, Vec::capacity) go through trusted wrappers
    whose body is the original expression; A, B and X are taken from the current line."""
    out = []
    for txt, no in lines:
        if not txt.lstrip().startswith('//'):
            mo = _EXTREV.match(txt)
            if mo:
                counts.bump('T5_extend_rev_range')
                txt = '%sextend_rev_range(&mut %s, %s, %s);' % (mo.group(1), mo.group(2).strip(), mo.group(3).strip(), mo.group(4).strip())
            else:
                t2 = re.sub(r'\b((?:self\.)?[A-Za-z_][\w.]*)\.capacity\(\)', lambda m: 'unused_capacity(&%s)' % m.group(1), txt)
                if t2 != txt:
                    counts.bump('T5_vec_capacity')
                    txt = t2
        out.append((txt, no))
    return out


_IF1 = re.compile(r'^(\s*)((?:\} else )?if .+) \{ (.+;) \}$')


def split_one_line_ifs(lines, counts):
    """T25: `if C { stmt; }` written on one line -> three lines (the normal form rustfmt produces by default), so that annotations
    attached inside the block of either spelling find their place."""
    out = []
    for txt, no in lines:
        mo = _IF1.match(txt)
        if mo and not txt.lstrip().startswith('//') and mo.group(3).count('{') == mo.group(3).count('}'):
            counts.bump('T25_one_line_if_split')
            out.append(('%s%s {' % (mo.group(1), mo.group(2)), no))
            out.append(('%s    %s' % (mo.group(1), mo.group(3)), no))
            out.append(('%s}' % mo.group(1), no))
        else:
            out.append((txt, no))
    return out


_WCAP = re.compile(r'^(\s*)let mut (\w+) = Vec::with_capacity\((.+)\);$')


def name_capacity_args(lines, counts):
    """T18: `let mut v = Vec::with_capacity(EXPR);` -> `let v_capacity_arg = EXPR; let mut v = Vec::with_capacity(v_capacity_arg);`
    so that a contract can speak about the amount of memory the code asks for (C19)."""
    out = []
    for txt, no in lines:
        mo = _WCAP.match(txt)
        if mo and not txt.lstrip().startswith('//'):
            counts.bump('T18_capacity_arg_named')
            out.append(('%slet %s_capacity_arg = %s;' % (mo.group(1), mo.group(2), mo.group(3)), no))
            out.append(('%slet mut %s = Vec::with_capacity(%s_capacity_arg);' % (mo.group(1), mo.group(2), mo.group(2)), no))
        else:
            out.append((txt, no))
    return out


def widen_visibility(lines, counts):
    """T15: pub(super) -> pub, private struct fields -> pub (visibility has no effect on what is proved; lets contracts
    name the fields, and keeps Verus from treating the struct as opaque in the contracts of public functions)."""
    out = []
    in_struct = False
    for txt, no in lines:
        for restricted in ('pub(super)', 'pub(crate)', 'pub(self)'):
            if restricted in txt:
                counts.bump('T15_pub_super', txt.count(restricted))
                txt = txt.replace(restricted, 'pub')
        s = txt.strip()
        if re.match(r'^struct \w+', txt):
            counts.bump('T15_private_struct')
            txt = 'pub ' + txt
            s = txt.strip()
        if re.match(r'^(pub )?struct \w+.*\{$', s):
            in_struct = True
        elif in_struct and s.startswith('}'):
            in_struct = False
        elif in_struct and re.match(r'^[a-z_]\w*: ', s):
            counts.bump('T15_private_field')
            txt = txt[:len(txt) - len(txt.lstrip())] + 'pub ' + s
        out.append((txt, no))
    return out


def select_items(lines, regex):
    """keep only the top-level items whose header line matches regex (attributes/comments directly
    above an item belong to it)."""
    rx = re.compile(regex)
    items = []  # list of lists of (txt, no)
    cur = []
    depth = 0
    for txt, no in lines:
        cur.append((txt, no))
        s = txt.strip()
        if not s or s.startswith('//'):
            if depth == 0 and not s:
                # blank line at depth 0 terminates a pending attribute-only group
                pass
            if depth == 0 and len(cur) == 1 and not s:
                cur = []
            continue
        depth += txt.count('{') - txt.count('}')
        if depth == 0 and (s.endswith('}') or s.endswith(';')) and not s.startswith('#['):
            items.append(cur)
            cur = []
    out = []
    for it in items:
        header = next((t for t, _ in it if t.strip() and not t.strip().startswith('#[') and not t.strip().startswith('//')), '')
        if rx.search(header):
            out.extend(it)
    return out


def transform(text, counts, select=None):
    lines = [(l, i + 1) for i, l in enumerate(text.split('\n'))]
    if lines and lines[-1][0] == '':
        lines.pop()
    lines = strip_cfg_test(lines, counts)
    if select:
        lines = select_items(lines, select)
    lines = join_method_chains(lines, counts)
    lines = split_one_line_ifs(lines, counts)
    lines = rewrite_asserts(lines, counts)
    lines = rewrite_unchecked(lines, counts)
    lines = split_block_heads(lines, counts)
    lines = rewrite_retain(lines, counts)
    lines = normalise_loop_break(lines, counts)
    lines = rewrite_for_loops(lines, counts)
    lines = rewrite_std_calls(lines, counts)
    lines = name_capacity_args(lines, counts)
    lines = widen_visibility(lines, counts)
    # `pub mod x;` / `mod x;` declarations: the module tree is spelled out by the overlay
    out = []
    for txt, no in lines:
        if re.match(r'^\s*(pub )?mod \w+;\s*$', txt):
            counts.bump('T16_mod_decl_dropped')
            continue
        out.append((txt.rstrip(), no))
    return out


# --------------------------------------------------------------------------------------------
# overlay parsing
# --------------------------------------------------------------------------------------------

class OLine:
    __slots__ = ('text', 'ono', 'kind', 'base', 'extra', 'bidx', 'after')

    def __init__(self, text, ono):
        self.text = text      # text as written in the overlay (markers removed)
        self.ono = ono        # overlay line number
        self.kind = 'plain'   # plain | semi | ret | iter | was | drop | arm
        self.base = None      # canonical base-form text this line stands for (None: unknown yet)
        self.extra = None
        self.bidx = None      # index of the matched base line
        self.after = None


_RET = re.compile(r'^(.*-> )\((\w+): (.*)\)$')
_ITER = re.compile(r'^(\s*for \w+ in )(\w+): (.*)$')
_ARM = re.compile(r'^(\s*)(.*?) => (.*?)(,?)$')


def parse_region(raw_lines, first_ono):
    """raw overlay lines of one file region -> list of OLine (arm triples folded into one OLine)."""
    out = []
    i = 0
    n = len(raw_lines)
    while i < n:
        raw = raw_lines[i].rstrip('\n').rstrip()
        ono = first_ono + i
        s = raw.strip()
        if s.startswith('//@drop:'):
            ol = OLine('', ono)
            ol.kind = 'drop'
            ol.base = raw[:len(raw) - len(raw.lstrip())] + s[len('//@drop:'):].strip()
            out.append(ol)
            i += 1
            continue
        if raw.endswith('//@arm'):
            # PAT => { //@arm   ...annotation lines...   EXPR //@arm-body   }, //@arm-close
            head = raw[:-len('//@arm')].rstrip()
            mo = re.match(r'^(\s*)(.*?) => \{$', head)
            if not mo:
                raise SystemExit('overlay line %d: malformed //@arm' % ono)
            j = i + 1
            ann = []
            while j < n and not raw_lines[j].rstrip().endswith('//@arm-body'):
                ann.append(raw_lines[j].rstrip())
                j += 1
            if j >= n:
                raise SystemExit('overlay line %d: //@arm without //@arm-body' % ono)
            body = raw_lines[j].rstrip()[:-len('//@arm-body')].strip()
            k = j + 1
            after = []
            while k < n and not raw_lines[k].rstrip().endswith('//@arm-close'):
                after.append(raw_lines[k].rstrip())
                k += 1
            if k >= n:
                raise SystemExit('overlay line %d: //@arm without //@arm-close' % ono)
            if after and body.endswith(';'):
                body = body[:-1]
            comma = ',' if raw_lines[k].strip().startswith('},') else ''
            ol = OLine(head, ono)
            ol.kind = 'arm'
            ol.base = '%s%s => %s%s' % (mo.group(1), mo.group(2), body, comma)
            ol.extra = ann
            ol.after = after
            j = k - 1
            out.append(ol)
            i = j + 2
            continue
        mo = re.match(r'^(.*?)\s*//@was: (.*)$', raw)
        if mo:
            ol = OLine(mo.group(1), ono)
            ol.kind = 'was'
            ol.base = raw[:len(raw) - len(raw.lstrip())] + mo.group(2).strip()
            out.append(ol)
            i += 1
            continue
        if raw.endswith('//@+;'):
            t = raw[:-len('//@+;')].rstrip()
            ol = OLine(t, ono)
            ol.kind = 'semi'
            ol.base = t[:-1] if t.endswith(';') else t
            out.append(ol)
            i += 1
            continue
        ol = OLine(raw, ono)
        mo = _RET.match(raw)
        mi = _ITER.match(raw)
        if mo and re.match(r'^\s*(pub )?fn\b', raw):
            ol.kind = 'ret'
            ol.base = mo.group(1) + mo.group(3)
            ol.extra = mo.group(2)
        elif mo and raw.lstrip().startswith(')'):
            # multi-line signature: `) -> (r: T)`
            ol.kind = 'ret'
            ol.base = mo.group(1) + mo.group(3)
            ol.extra = mo.group(2)
        elif mi:
            ol.kind = 'iter'
            ol.base = mi.group(1) + mi.group(3)
            ol.extra = mi.group(2)
        else:
            ol.base = raw
        out.append(ol)
        i += 1
    return out


def is_trivia(t):
    s = t.strip()
    return s == '' or s.startswith('//')


def classify(olines, base):
    """match every significant base line, in order, to an overlay line (greedy subsequence embedding).
    Returns list of base indices that could not be matched (must be empty)."""
    pos = 0
    missing = []
    sig = [k for k, (t, _) in enumerate(base) if not is_trivia(t)]
    match_of = {}
    for k in sig:
        t = base[k][0]
        j = pos
        while j < len(olines) and not (olines[j].base == t):
            j += 1
        if j >= len(olines):
            missing.append(k)
            continue
        olines[j].bidx = k
        match_of[k] = j
        pos = j + 1
    # comments: try to place them between their significant neighbours
    prev_o = -1
    for k, (t, _) in enumerate(base):
        if k in match_of:
            prev_o = match_of[k]
            continue
        if t.strip() == '':
            continue
        nxt = next((match_of[q] for q in range(k + 1, len(base)) if q in match_of), len(olines))
        for j in range(prev_o + 1, nxt):
            if olines[j].bidx is None and olines[j].kind == 'plain' and olines[j].text == t:
                olines[j].bidx = k
                prev_o = j
                break
    return missing


# --------------------------------------------------------------------------------------------
# merge
# --------------------------------------------------------------------------------------------

def derive(ol, cur_text, unchanged, lost):
    """the emitted form of a code line that the overlay rewrites (ret naming, added `;`, arm block, ...)"""
    k = ol.kind
    if k == 'plain':
        return [cur_text]
    if k == 'drop':
        if unchanged:
            return []
        mb = re.match(r'^\s*#\[derive\(([^)]*)\)\]\s*$', ol.base or '')
        mc = re.match(r'^(\s*)#\[derive\(([^)]*)\)\]\s*$', cur_text)
        if mb and mc:
            # the overlay drops `#[derive(X)]` (it supplies the impl with a specification): a longer derive list keeps the rest
            gone = set(x.strip() for x in mb.group(1).split(','))
            rest = [x.strip() for x in mc.group(2).split(',') if x.strip() and x.strip() not in gone]
            if len(rest) < len([x for x in mc.group(2).split(',') if x.strip()]):
                return ['%s#[derive(%s)]' % (mc.group(1), ', '.join(rest))] if rest else []
        lost.append(('drop', ol.ono))
        return [cur_text]
    if k == 'was':
        if unchanged:
            return [ol.text]
        lost.append(('was', ol.ono))
        return [cur_text]
    if k == 'semi':
        t = cur_text.rstrip()
        if t.endswith((';', '{', '}', ',')):
            return [cur_text]
        return [t + ';']
    if k == 'ret':
        mo = re.match(r'^(.*-> )(.*)$', cur_text)
        if mo and not mo.group(2).startswith('('):
            return ['%s(%s: %s)' % (mo.group(1), ol.extra, mo.group(2))]
        if unchanged:
            return [ol.text]
        lost.append(('ret', ol.ono))
        return [cur_text]
    if k == 'iter':
        mo = re.match(r'^(\s*for \w+ in )(.*)$', cur_text)
        if mo:
            return ['%s%s: %s' % (mo.group(1), ol.extra, mo.group(2))]
        lost.append(('iter', ol.ono))
        return [cur_text]
    if k == 'arm':
        mo = _ARM.match(cur_text)
        if mo:
            ind = mo.group(1)
            after = list(ol.after or [])
            body = mo.group(3)
            if after and not body.rstrip().endswith((';', '}')):
                body = body + ';'
            return (['%s%s => {' % (ind, mo.group(2))] + list(ol.extra) +
                    ['%s    %s' % (ind, body)] + after + ['%s}%s' % (ind, mo.group(4))])
        lost.append(('arm', ol.ono))
        return [cur_text]
    raise AssertionError(k)


_TOK = re.compile(r'[A-Za-z_][A-Za-z_0-9]*|\d+\w*|\S')
_KEYWORDS = set('let mut if else while loop for in match return break continue fn pub self Self as ref move true false impl use mod struct enum where unsafe'.split())


def _fn_spans(lines):
    """[(lo, hi)] index ranges of the functions of a transformed file (header line .. closing brace at the header's indentation;
    a declaration without body ends at its `;`)"""
    spans = []
    i, n = 0, len(lines)
    while i < n:
        t = lines[i][0]
        m = re.match(r'^(\s*)(?:pub(?:\([a-z]+\))? )?(?:const )?(?:unsafe )?fn \w+', t)
        if m:
            ind = m.group(1)
            j = i
            end = None
            while j < n:
                tj = lines[j][0].rstrip()
                if tj.endswith('}') and '{' in tj and j == i:
                    end = j          # one-line function
                    break
                if tj == ind + '{' or (tj.endswith('{') and j == i):
                    k = j + 1
                    while k < n and lines[k][0].rstrip() != ind + '}':
                        k += 1
                    end = min(k, n - 1)
                    break
                if tj.endswith(';'):
                    end = j          # declaration without body
                    break
                j += 1
            if end is None:
                end = n - 1
            spans.append((i, end))
            i = end + 1
            continue
        i += 1
    return spans


def _fn_name(header):
    m = re.search(r'\bfn (\w+)', header)
    return m.group(1) if m else None


def _function_plan(base, cur):
    """pairs the functions of the base text with those of the current text: by name (k-th occurrence with k-th occurrence), a
    renamed function by the similarity of its body.  -> [(lo, hi, clo, chi)] or None (no function-level plan: names ambiguous)"""
    sb, sc = _fn_spans(base), _fn_spans(cur)
    nb, nc = {}, {}
    for sp in sb:
        nb.setdefault(_fn_name(base[sp[0]][0]), []).append(sp)
    for sp in sc:
        nc.setdefault(_fn_name(cur[sp[0]][0]), []).append(sp)
    pairs, only_b, only_c = [], [], []
    for name, lst in nb.items():
        other = nc.get(name, [])
        if other and len(other) != len(lst):
            return None
        if other:
            pairs += [(x[0], x[1], y[0], y[1]) for x, y in zip(lst, other)]
        else:
            only_b += lst
    for name, lst in nc.items():
        if name not in nb:
            only_c += lst
    # renamed functions
    def text(lines, sp):
        return '\n'.join(t.strip() for t, _ in lines[sp[0] + 1:sp[1] + 1])
    for x in list(only_b):
        best = [(difflib.SequenceMatcher(a=text(base, x), b=text(cur, y), autojunk=False).ratio(), y) for y in only_c]
        best = sorted([z for z in best if z[0] >= 0.6], reverse=True)
        if len(best) == 1 or (len(best) > 1 and best[0][0] - best[1][0] > 0.15):
            y = best[0][1]
            pairs.append((x[0], x[1], y[0], y[1]))
            only_b.remove(x)
            only_c.remove(y)
    return sorted(pairs)


def _mark_fields(t):
    """`.name` (field access / method call) -> `.FIELD__name`, so that a local and a field of the same name are different tokens"""
    return re.sub(r'\.\s*([A-Za-z_]\w*)', r'.FIELD__\1', t)


def _sub_local(mp, text):
    return re.sub(r'(?<![.\w])(%s)\b' % '|'.join(map(re.escape, mp)), lambda m: mp[m.group(1)], text)


def field_renames(pairs_of_texts, cur_texts, base_texts):
    """consistent renames of fields over a whole unit, read off the lines that changed one-for-one: {old: new}; accepted only if
    `.old` occurs nowhere in the current text of the unit and `.new` nowhere in its base text"""
    ren, bad = {}, set()
    for tb_line, tc_line in pairs_of_texts:
        tb, tc = _TOK.findall(_mark_fields(tb_line)), _TOK.findall(_mark_fields(tc_line))
        if len(tb) != len(tc):
            continue
        for x, y in zip(tb, tc):
            if x != y and x.startswith('FIELD__') and y.startswith('FIELD__'):
                if ren.setdefault(x[7:], y[7:]) != y[7:]:
                    bad.add(x[7:])
    cur_f = set(re.findall(r'\.\s*([A-Za-z_]\w*)', '\n'.join(cur_texts)))
    base_f = set(re.findall(r'\.\s*([A-Za-z_]\w*)', '\n'.join(base_texts)))
    return {x: y for x, y in ren.items() if x not in bad and x not in cur_f and y not in base_f}


def local_renames(base, cur, bmap):
    """consistent renames of local identifiers inside one function (base text -> current text), read off the lines that changed
    one-for-one: {(lo, hi) base span: {old: new}}.  A rename is accepted only if `old` no longer occurs in the current text of
    the function and `new` did not occur in its base text - so applying it to the annotation lines of that function is the
    edit the author of the change would have made.  A wrong guess can only produce text that does not verify."""
    res = {}
    for lo, hi in _fn_spans(base):
        pairs = [(b, bmap[b][1]) for b in range(lo, hi + 1) if bmap.get(b, ('', 0))[0] == 'mod']
        if not pairs:
            continue
        ren, bad = {}, set()
        for b, c in pairs:
            tb, tc = _TOK.findall(_mark_fields(base[b][0])), _TOK.findall(_mark_fields(cur[c][0]))
            if len(tb) != len(tc):
                continue
            for x, y in zip(tb, tc):
                if x != y:
                    if re.match(r'^[a-z_][a-z_0-9]*$', x) and re.match(r'^[a-z_][a-z_0-9]*$', y) and x not in _KEYWORDS and y not in _KEYWORDS:
                        if ren.setdefault(x, y) != y:
                            bad.add(x)
                    else:
                        bad.add(x)
        cur_idx = [bmap[b][1] for b in range(lo, hi + 1) if bmap.get(b, ('', 0))[0] in ('eq', 'mod')]
        if not cur_idx:
            continue
        cur_toks = set(t for c in range(min(cur_idx), max(cur_idx) + 1) for t in _TOK.findall(_mark_fields(cur[c][0])))
        base_toks = set(t for b in range(lo, hi + 1) for t in _TOK.findall(_mark_fields(base[b][0])))
        ok = {x: y for x, y in ren.items() if x not in bad and x not in cur_toks and y not in base_toks}
        if ok:
            res[(lo, hi)] = ok
    return res



def _line_key(t):
    s = t.strip()
    toks = _TOK.findall(s)
    if toks[:1] == ['use'] or toks[:2] == ['pub', 'use']:
        return 'use ' + ' '.join(sorted(x for x in toks if re.match(r'^\w+$', x) and x not in ('use', 'pub')))
    while toks and toks[-1] in (',', ';'):
        toks.pop()
    return ' '.join(toks)


def _line_map(base, cur):
    """base idx -> ('eq'|'mod', cur idx); vanished base idx -> cur idx after which its annotations go (-1: file head).
    Functions are aligned with each other first (so a function that moved inside the file, or was renamed, is compared with
    itself), the text outside functions is aligned as one sequence; lines that moved inside a function (identical or
    near-identical text, unmatched on both sides, unique) are mapped too."""
    # lines are compared by their token sequence (layout inside a line, a trailing `,` / `;`, the order of the names in a
    # `use` list do not matter for the alignment; what is emitted is always the current text)
    bs = [_line_key(t) for t, _ in base]
    cs = [_line_key(t) for t, _ in cur]
    bmap, anchor = {}, {}
    changed = 0
    free_b, free_c = [], []

    def diff_segment(bi_list, ci_list):
        nonlocal changed
        head_anchor = (ci_list[0] - 1) if ci_list else -1
        sm = difflib.SequenceMatcher(a=[bs[i] for i in bi_list], b=[cs[j] for j in ci_list], autojunk=False)
        for tag, i1, i2, j1, j2 in sm.get_opcodes():
            if tag == 'equal':
                for d in range(i2 - i1):
                    bmap[bi_list[i1 + d]] = ('eq', ci_list[j1 + d])
            elif tag == 'replace' and (i2 - i1) == (j2 - j1) and all(
                    difflib.SequenceMatcher(a=bs[bi_list[i1 + d]], b=cs[ci_list[j1 + d]], autojunk=False).ratio() >= 0.72 for d in range(i2 - i1)):
                # changed one-for-one (each line is recognisably the edited form of the line it replaces)
                for d in range(i2 - i1):
                    bmap[bi_list[i1 + d]] = ('mod', ci_list[j1 + d])
                changed += i2 - i1
            else:
                changed += max(i2 - i1, j2 - j1)
                # lines replaced by a different number of lines: pair, in order, the lines that are near-identical (a trailing
                # comma, one token); the rest vanished / are new
                paired = {}
                jn = j1
                for x in range(i1, i2):
                    for y in range(jn, j2):
                        if len(bs[bi_list[x]]) >= 8 and difflib.SequenceMatcher(a=bs[bi_list[x]], b=cs[ci_list[y]], autojunk=False).ratio() >= 0.85:
                            paired[x] = y
                            jn = y + 1
                            break
                for x in range(i1, i2):
                    if x in paired:
                        bmap[bi_list[x]] = ('mod', ci_list[paired[x]])
                        continue
                    # annotation lines that followed a vanished line go after the text that replaced it
                    anchor[bi_list[x]] = ci_list[j2 - 1] if j2 > 0 else head_anchor
                    free_b.append(bi_list[x])
                free_c.extend(ci_list[y] for y in range(j1, j2) if y not in paired.values())

    plan = _function_plan(base, cur)
    if plan is None:
        diff_segment(list(range(len(bs))), list(range(len(cs))))
        fn_pairs = []
        for lo, hi in _fn_spans(base):
            imgs = [bmap[b][1] for b in range(lo, hi + 1) if b in bmap]
            if imgs:
                fn_pairs.append((lo, hi, min(imgs), max(imgs)))
    else:
        in_b, in_c = set(), set()
        for lo, hi, clo, chi in plan:
            in_b.update(range(lo, hi + 1))
            in_c.update(range(clo, chi + 1))
        diff_segment([i for i in range(len(bs)) if i not in in_b], [j for j in range(len(cs)) if j not in in_c])
        for lo, hi, clo, chi in plan:
            diff_segment(list(range(lo, hi + 1)), list(range(clo, chi + 1)))
        fn_pairs = plan
    # text outside functions (use lines, items): moved lines are looked for over the whole file
    fn_pairs = list(fn_pairs) + [(-1, -1, -1, -1)]
    # moved lines: inside one function, a vanished line whose text reappears exactly once among the new lines of that function
    moved = 0
    free_cs = set(free_c)
    in_fn_b = set(b for lo, hi, _, _ in fn_pairs for b in range(lo, hi + 1) if lo >= 0)
    in_fn_c = set(c for _, _, clo, chi in fn_pairs for c in range(clo, chi + 1) if clo >= 0)
    for lo, hi, clo, chi in fn_pairs:
        if lo < 0:
            fb = [b for b in free_b if b not in in_fn_b]
            fc = sorted(c for c in free_cs if c not in in_fn_c)
        else:
            fb = [b for b in free_b if lo <= b <= hi]
            fc = [c for c in range(clo, chi + 1) if c in free_cs]
        by_text_b, by_text_c = {}, {}
        for bi in fb:
            by_text_b.setdefault(bs[bi], []).append(bi)
        for ci in fc:
            by_text_c.setdefault(cs[ci], []).append(ci)
        for t, lb in by_text_b.items():
            lc = by_text_c.get(t, [])
            if len(lb) == 1 and len(lc) == 1 and len(t) >= 12:
                bmap[lb[0]] = ('eq', lc[0])
                del anchor[lb[0]]
                free_cs.discard(lc[0])
                moved += 1
        # ... or reappears with a small edit (a trailing comma, one token): unique near-identical partner
        for bi in fb:
            if bi in bmap or len(bs[bi]) < 12:
                continue
            near = [ci for ci in fc if ci in free_cs and difflib.SequenceMatcher(a=bs[bi], b=cs[ci], autojunk=False).ratio() >= 0.9]
            if len(near) == 1 and sum(1 for b2 in fb if b2 not in bmap and difflib.SequenceMatcher(a=bs[b2], b=cs[near[0]], autojunk=False).ratio() >= 0.9) == 1:
                bmap[bi] = ('mod', near[0])
                del anchor[bi]
                free_cs.discard(near[0])
                moved += 1
        # ... or is a match arm whose pattern was respelled (`Ordering::Greater => X` -> `_ => X`, arms merged / split): the arm with
        # the same body, if there is exactly one such free arm on either side
        def arm_body(k):
            return k.split(' => ', 1)[1] if ' => ' in k else None
        for bi in fb:
            if bi in bmap:
                continue
            bb = arm_body(bs[bi])
            if bb is None or len(bb) < 6:
                continue
            cands = [ci for ci in fc if ci in free_cs and arm_body(cs[ci]) == bb]
            if len(cands) == 1 and sum(1 for b2 in fb if b2 not in bmap and arm_body(bs[b2]) == bb) == 1:
                bmap[bi] = ('mod', cands[0])
                del anchor[bi]
                free_cs.discard(cands[0])
                moved += 1
    # functions into which the change inserted code lines (new statements): their annotations may no longer fit
    _line_map.restructured = []
    for lo, hi, clo, chi in fn_pairs:
        if lo < 0:
            continue
        ins = [c for c in range(clo, chi + 1) if c in free_cs and cs[c] not in ('', '{', '}') and not cur[c][0].strip().startswith('//')]
        if ins:
            _line_map.restructured.append((cur[clo][1], cur[chi][1], len(ins)))
    return bmap, anchor, changed, moved


def merge(olines, base, cur, relpath, overlay_name, fren=None):
    """emit the current code with the overlay's annotation lines.  Returns (out_lines, origin, info).
    origin[i] = ('C', relpath, repo_line) | ('A', overlay_name, overlay_line).
    The current lines are emitted in their order; every overlay code line carries the annotation lines that follow it (and the
    attribute lines that precede it) to wherever its image is; annotation lines of a vanished line go after the text that
    replaced it."""
    bmap, anchor, changed, moved = _line_map(base, cur)
    restructured = list(_line_map.restructured)
    lost = []
    # T20: a consistent rename of a local identifier inside a function is carried over to that function's annotation lines
    renames = local_renames(base, cur, bmap)
    renamed = 0
    span_of = {}
    if renames:
        for (lo, hi), mp in renames.items():
            for b in range(lo, hi + 1):
                span_of[b] = mp
        last_map = None
        for ol in olines:
            if ol.bidx is not None:
                last_map = span_of.get(ol.bidx)
                if ol.kind == 'arm' and last_map:
                    for attr in ('extra', 'after'):
                        v = getattr(ol, attr)
                        if v:
                            setattr(ol, attr, [_sub_local(last_map, x) for x in v])
                continue
            if last_map:
                t2 = _sub_local(last_map, ol.text)
                if t2 != ol.text:
                    ol.text = t2
                    renamed += 1
    # blocks: head (before the first code line), and per overlay code line: leading attribute lines + trailing annotation lines
    head, lead, trail, code = [], {}, {}, []
    cur_block = head
    for ol in olines:
        if ol.bidx is None:
            if ol.kind not in ('plain', 'ret', 'iter'):
                raise SystemExit('%s:%d: rewrite directive does not match any base line: %r' % (overlay_name, ol.ono, ol.base))
            cur_block.append(ol)
            continue
        # attribute lines (`#[..]`) directly before a code line belong to it
        attrs = []
        while cur_block and cur_block[-1].text.strip().startswith('#['):
            attrs.insert(0, cur_block.pop())
        lead[id(ol)] = attrs
        cur_block = trail.setdefault(id(ol), [])
        code.append(ol)
    image = {}      # cur idx -> overlay code line
    at = {}         # cur idx (or -1) -> overlay code lines that vanished there, in base order
    for ol in code:
        m = bmap.get(ol.bidx)
        if m is None:
            at.setdefault(anchor.get(ol.bidx, -1), []).append(ol)
            if ol.kind != 'plain':
                lost.append((ol.kind, ol.ono))
        else:
            image[m[1]] = (ol, m[0])
    out, origin = [], []

    def emit_ann(block):
        for x in block:
            t = x.text
            if t.lstrip().startswith(', ') and out and out[-1].split('//')[0].rstrip().endswith(','):
                # a ghost field appended after the last field of a struct: the current text already has the trailing comma
                t = t.replace(', ', '', 1)
            out.append(t)
            origin.append(('A', overlay_name, x.ono))

    emit_ann(head)
    for ol in at.get(-1, []):
        emit_ann(lead[id(ol)])
        emit_ann(trail[id(ol)])
    for c in range(len(cur)):
        if c in image:
            ol, tag = image[c]
            emit_ann(lead[id(ol)])
            same = tag == 'eq'
            if not same and ol.kind in ('was', 'drop') and ol.base is not None:
                # the line differs from the base only by a rename that is carried over (T20 / T20b): the rewrite still applies,
                # with the same rename
                lm = span_of.get(ol.bidx) if renames else None

                def rn(t):
                    if fren:
                        t = re.sub(r'(?<=\.)(%s)\b' % '|'.join(map(re.escape, fren)), lambda m: fren[m.group(1)], t)
                    if lm:
                        t = _sub_local(lm, t)
                    return t
                if (fren or lm) and _line_key(rn(ol.base)) == _line_key(cur[c][0]):
                    same = True
                    ol.text = rn(ol.text)
            for k, t in enumerate(derive(ol, cur[c][0], same, lost)):
                out.append(t)
                if ol.kind == 'arm' and (0 < k <= len(ol.extra or []) or len(ol.extra or []) + 1 < k <= len(ol.extra or []) + 1 + len(ol.after or [])):
                    origin.append(('A', overlay_name, ol.ono + k))
                else:
                    origin.append(('C', relpath, cur[c][1]))
            emit_ann(trail[id(ol)])
        else:
            out.append(cur[c][0])
            origin.append(('C', relpath, cur[c][1]))
        for ol in at.get(c, []):
            emit_ann(lead[id(ol)])
            emit_ann(trail[id(ol)])
    info = {'changed_lines': changed, 'lost_rewrites': lost, 'annotation_lines_renamed': renamed, 'moved_lines': moved, 'restructured_fns': restructured}
    return out, origin, info


# --------------------------------------------------------------------------------------------
# driver
# --------------------------------------------------------------------------------------------

_FILE = re.compile(r'^\s*//@ file (\S+)(?: select=(\S+))?\s*$')
_INCL = re.compile(r'^\s*//@ include (\S+)(?: subst=(\S+))?\s*$')


def apply_subst(text, rules):
    for a, b in rules:
        text = re.sub(a, b, text)
    return text


def build_unit(overlay_path, base_root, repo_root, out_path, subst_tables=None, spinoff=True):
    """returns a report dict; writes the Verus file to out_path"""
    counts = Counts()
    name = os.path.basename(overlay_path)
    raw = open(overlay_path).read().split('\n')
    # expand includes (ghost libraries shared between units; optionally instantiated by token substitution)
    expanded = []
    src = []
    for k, line in enumerate(raw):
        mi = _INCL.match(line)
        if mi:
            ip = os.path.join(os.path.dirname(overlay_path), mi.group(1))
            txt = open(ip).read()
            if mi.group(2):
                txt = apply_subst(txt, (subst_tables or {})[mi.group(2)])
            for q, l in enumerate(txt.split('\n')):
                expanded.append(l)
                src.append((mi.group(1), q + 1))
        else:
            expanded.append(line)
            src.append((name, k + 1))
    raw = expanded
    out, origin = [], []
    files = []
    problems = []
    n = len(raw)
    # pass 1: the regions (one per /repo file) with their base and current text
    regions = {}
    i = 0
    while i < n:
        mo = _FILE.match(raw[i])
        if not mo:
            i += 1
            continue
        rel, select = mo.group(1), mo.group(2)
        j = i + 1
        while j < n and raw[j].strip() != '//@ end-file':
            j += 1
        if j >= n:
            raise SystemExit('%s:%d: //@ file without //@ end-file' % (name, i + 1))
        region = parse_region(raw[i + 1:j], src[i + 1][1])
        bcounts = Counts()
        base = transform(open(os.path.join(base_root, rel)).read(), bcounts, select)
        curp = os.path.join(repo_root, rel)
        if not os.path.exists(curp):
            problems.append({'kind': 'missing-file', 'file': rel})
            cur = []
        else:
            cur = transform(open(curp).read(), counts, select)
            cur = inline_new_helpers(cur, base, counts)
        missing = classify(region, base)
        if missing:
            for k in missing[:5]:
                problems.append({'kind': 'overlay-out-of-sync', 'file': rel, 'base_line': base[k][1], 'text': base[k][0]})
        regions[i] = (rel, select, j, region, base, cur)
        i = j + 1
    # T20b: a field renamed consistently over the whole unit is renamed in the overlay's own annotation lines too
    mod_pairs = []
    for rel, select, j, region, base, cur in regions.values():
        bm = _line_map(base, cur)[0]
        mod_pairs += [(base[b][0], cur[m[1]][0]) for b, m in bm.items() if m[0] == 'mod']
    fren = field_renames(mod_pairs, [t for r in regions.values() for t, _ in r[5]], [t for r in regions.values() for t, _ in r[4]]) if mod_pairs else {}
    fields_renamed = 0
    if fren:
        rx = re.compile(r'(?<=\.)(%s)\b' % '|'.join(map(re.escape, fren)))

        def fsub(t):
            return rx.sub(lambda m: fren[m.group(1)], t)
        for rel, select, j, region, base, cur in regions.values():
            for ol in region:
                if ol.bidx is None and ol.kind == 'plain':
                    t2 = fsub(ol.text)
                    if t2 != ol.text:
                        ol.text = t2
                        fields_renamed += 1
                if ol.kind == 'arm':
                    ol.extra = [fsub(x) for x in (ol.extra or [])]
                    ol.after = [fsub(x) for x in (ol.after or [])]
        in_region = set(q for i0, r in regions.items() for q in range(i0, r[2] + 1))
        for q in range(n):
            if q not in in_region and src[q][0] == name:
                raw[q] = fsub(raw[q])
    i = 0
    while i < n:
        if i not in regions:
            out.append(raw[i])
            origin.append(('A',) + src[i])
            i += 1
            continue
        rel, select, j, region, base, cur = regions[i]
        o2, or2, info = merge(region, base, cur, rel, name, fren)
        out.append('// ---- begin %s (current /repo text + overlay annotations)' % rel)
        origin.append(('A', name, i + 1))
        out.extend(o2)
        origin.extend(or2)
        out.append('// ---- end %s' % rel)
        origin.append(('A', name, j + 1))
        n_ann = sum(1 for o in or2 if o[0] == 'A')
        files.append({'file': rel, 'select': select, 'code_lines': len(cur), 'annotation_lines': n_ann,
                      'changed_vs_base': info['changed_lines'], 'lost_rewrites': info['lost_rewrites'], 'annotation_lines_renamed': info.get('annotation_lines_renamed', 0), 'moved_lines': info.get('moved_lines', 0),
                      'restructured_fns': info.get('restructured_fns', [])})
        # fidelity: the code lines emitted, with the rewrites undone, are exactly the current transformed text
        emitted_code = [t for t, o in zip(o2, or2) if o[0] == 'C']
        if len([1 for _ in cur]) > len(emitted_code) + sum(len(ol.extra or []) for ol in region if ol.kind == 'arm') + len(cur):
            problems.append({'kind': 'fidelity', 'file': rel})
        i = j + 1
    out, origin, dropped_new = drop_new_readonly_fns(out, origin, base_root)
    n_spin = 0
    if spinoff:
        out, origin, n_spin = add_spinoff(out, origin)
    with open(out_path, 'w') as f:
        f.write('\n'.join(out))
        f.write('\n')
    return {'overlay': name, 'out': out_path, 'files': files, 'transform_counts': dict(counts),
            'problems': problems, 'origin': origin, 'lines': out, 'spinoff_attrs': n_spin, 'new_readonly_fns_dropped': dropped_new,
            'fields_renamed': fren, 'annotation_lines_field_renamed': fields_renamed}


def inline_new_helpers(cur, base, counts):
    """T23: a private helper that the base text does not have, that returns nothing, has no `mut` parameter, no generics and no
    `return`, and is called exactly once - as the statement `self.helper(a, b, c);` whose arguments are exactly the helper's
    parameter names - is put back at its call site (the inverse of an extract-method refactoring; the inlined text is the same
    program).  Anything else is left alone."""
    base_names = set(_fn_name(base[lo][0]) for lo, hi in _fn_spans(base))
    for _ in range(4):
        spans = _fn_spans(cur)
        done = False
        for lo, hi in spans:
            name = _fn_name(cur[lo][0])
            if not name or name in base_names:
                continue
            # header: from `fn` to the line before the body's `{`
            ind = cur[lo][0][:len(cur[lo][0]) - len(cur[lo][0].lstrip())]
            b0 = None
            for q in range(lo, hi + 1):
                if cur[q][0].rstrip() == ind + '{':
                    b0 = q
                    break
            if b0 is None or cur[hi][0].rstrip() != ind + '}':
                continue
            header = ' '.join(t.strip() for t, _ in cur[lo:b0])
            m = re.match(r'^(?:pub(?:\([a-z]+\))? )?fn \w+\((.*)\)\s*$', header)
            if not m or '<' in header.split('(')[0]:
                continue
            params = [x.strip() for x in _split_top_commas(m.group(1)) if x.strip()]
            if not params or params[0] not in ('&mut self', '&self'):
                continue
            pnames = []
            ok = True
            for x in params[1:]:
                pm = re.match(r'^([a-z_]\w*)\s*:', x)
                if not pm:
                    ok = False
                    break
                pnames.append(pm.group(1))
            body = cur[b0 + 1:hi]
            if not ok or any(re.search(r'\breturn\b', t.split('//')[0]) for t, _ in body):
                continue
            calls = [q for q in range(len(cur)) if not (lo <= q <= hi) and re.search(r'\b%s\s*\(' % re.escape(name), cur[q][0].split('//')[0])]
            if len(calls) != 1:
                continue
            c = calls[0]
            cm = re.match(r'^(\s*)self\.%s\((.*)\);\s*$' % re.escape(name), cur[c][0])
            if not cm or [x.strip() for x in _split_top_commas(cm.group(2)) if x.strip()] != pnames:
                continue
            shift = len(cm.group(1)) - (len(ind) + 4)
            new_body = []
            for t, no in body:
                if shift >= 0:
                    new_body.append(((' ' * shift + t) if t.strip() else t, no))
                else:
                    new_body.append((t[-shift:] if t[:-shift].strip() == '' else t, no))
            a = lo
            while a > 0 and re.match(r'^\s*(#\[|///)', cur[a - 1][0]):
                a -= 1
            if c < a:
                cur = cur[:c] + new_body + cur[c + 1:a] + cur[hi + 1:]
            else:
                cur = cur[:a] + cur[hi + 1:c] + new_body + cur[c + 1:]
            counts.bump('T23_new_helper_inlined')
            done = True
            break
        if not done:
            break
    return cur


def drop_new_readonly_fns(out, origin, base_root):
    """T22: a function that the base text does not have, that cannot change the collection (no `&mut`, no `unsafe`, no `mut self`)
    and that nothing in the unit refers to is left out of the verified text: it has no contract and cannot affect a property
    (Rust's borrow rules).  Returns (lines, origin, [names]).  A new function that takes `&mut self` stays in (and is undecided)."""
    base_text = {}
    spans = _fn_spans([(t, 0) for t in out])
    drop = []
    for lo, hi in spans:
        o = origin[lo]
        if o[0] != 'C':
            continue
        rel = o[1]
        if rel not in base_text:
            try:
                base_text[rel] = open(os.path.join(base_root, rel)).read()
            except OSError:
                base_text[rel] = ''
        name = _fn_name(out[lo])
        if not name or re.search(r'\bfn %s\b' % re.escape(name), base_text[rel]):
            continue
        if any(origin[q][0] != 'C' for q in range(lo, hi + 1)):
            continue
        body = '\n'.join(out[lo:hi + 1])
        if '&mut' in body or 'unsafe' in body or re.search(r'\bmut self\b', body):
            continue
        refs = sum(1 for q, t in enumerate(out) if not (lo <= q <= hi) and re.search(r'\b%s\b' % re.escape(name), t.split('//')[0]))
        if refs:
            continue
        a = lo
        while a > 0 and origin[a - 1][0] == 'C' and re.match(r'^\s*(#\[|///)', out[a - 1]):
            a -= 1
        drop.append((a, hi, name))
    if not drop:
        return out, origin, []
    keep_out, keep_or = [], []
    q = 0
    for a, hi, name in sorted(drop):
        keep_out.extend(out[q:a])
        keep_or.extend(origin[q:a])
        keep_out.append('// (T22) new read-only function `%s` not referred to by any verified code: left out' % name)
        keep_or.append(('A', 'extract.py', 0))
        q = hi + 1
    keep_out.extend(out[q:])
    keep_or.extend(origin[q:])
    return keep_out, keep_or, [d[2] for d in drop]


_FNHEAD = re.compile(r'^(\s*)(?:pub(?:\([a-z]+\))? )?(?:(?:open|closed|uninterp|broadcast) )*(?:(spec|proof|exec) )?fn (\w+)')


def add_spinoff(lines, origin):
    """one z3 process per function (`#[verifier::spinoff_prover]` on every exec / proof fn with a body): results of
    one function do not depend on edits elsewhere"""
    out, org = [], []
    trait_depth = None
    depth = 0
    n = 0
    for t, o in zip(lines, origin):
        code = re.sub(r'//.*$', '', t)
        mo = _FNHEAD.match(t)
        if mo and mo.group(2) != 'spec' and trait_depth is None and 'uninterp' not in t:
            out.append(mo.group(1) + '#[verifier::spinoff_prover]')
            org.append(('A', 'extract.py', 0))
            n += 1
        if re.match(r'^\s*(pub )?trait \w+', code) and '{' in code and trait_depth is None:
            trait_depth = depth
        depth += code.count('{') - code.count('}')
        if trait_depth is not None and depth <= trait_depth:
            trait_depth = None
        out.append(t)
        org.append(o)
    return out, org, n


def fn_table(lines):
    """line number (1-based) -> name of the enclosing fn, by a scan for `fn name` headers"""
    rx = re.compile(r'^\s*(?:#\[[^\]]*\]\s*)*(?:pub(?:\([a-z]+\))? )?(?:(?:open|closed|uninterp|broadcast) )*(?:(spec|proof|exec) )?fn (\w+)')
    table = [None] * (len(lines) + 2)
    cur = None
    curmode = None
    for idx, t in enumerate(lines):
        mo = rx.match(t)
        if mo:
            cur = mo.group(2)
            curmode = mo.group(1) or 'exec'
        table[idx + 1] = (cur, curmode)
    return table


if __name__ == '__main__':
    import json
    ov, base_root, repo_root, outp = sys.argv[1:5]
    rep = build_unit(ov, base_root, repo_root, outp)
    rep.pop('origin'); rep.pop('lines')
    print(json.dumps(rep, indent=1))
