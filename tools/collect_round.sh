#!/bin/bash
# tools/collect_round.sh <worktree prefix e.g. /tmp/w3_> <suffix e.g. agent3> : copies patch / demo / notes of finished agents
# into seeded/<id>_<suffix> and removes the worktree
pre=$1; suf=$2
for w in ${pre}C*; do
  [ -f $w/patch.diff ] && [ -f $w/NOTES.md ] || continue
  id=$(basename $w); id=${id##*_}
  d=/verif/seeded/${id}_${suf}; mkdir -p $d
  cp $w/patch.diff $d/patch.diff; cp $w/NOTES.md $d/agent_notes.md
  [ -f $w/tests/demo_${id}.rs ] && cp $w/tests/demo_${id}.rs $d/
  git -C /repo worktree remove --force $w && echo "collected $id"
done
git -C /repo worktree prune
