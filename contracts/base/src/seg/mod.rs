pub mod tree;
pub mod exp;
mod heap;
mod entity;
mod chunk;
mod layout;
mod bit;