use crate::key::entity::Entity;
use crate::{Expiration, ExpiredKey};

#[derive(PartialEq, Clone, Copy)]
pub(super) enum Color {
    Red,
    Black,
}

#[derive(Clone, Copy)]
pub(super) struct Node<K, E, V> {
    pub(super) parent: u32,
    pub(super) left: u32,
    pub(super) right: u32,
    pub(super) color: Color,
    pub(super) entity: Entity<K, E, V>,
}

impl<K: ExpiredKey<E>, E: Expiration, V: Copy> Node<K, E, V> {
    #[inline(always)]
    pub(super) fn is_not_expired(&self, time: E) -> bool {
        self.entity.key.expiration() > time
    }
}

impl<K: ExpiredKey<E>, E: Expiration, V: Copy> Default for Node<K, E, V> {
    #[inline]
    fn default() -> Self {
        Self {
            parent: 0,
            left: 0,
            right: 0,
            color: Color::Red,
            entity: unsafe { std::mem::zeroed() },
        }
    }
}
