#!/usr/bin/env python3
"""replay driver engine: builds /verif/replay against a scratch copy of /repo with widened visibility"""
import json
import os
import re
import shutil
import subprocess
import time

import framework as F

VERIF = F.VERIF


def prepare(repo, scratch):
    root = os.path.join(scratch, 'replay')
    if os.path.exists(os.path.join(root, 'built')):
        return root
    os.makedirs(root, exist_ok=True)
    rc = os.path.join(root, 'repo_copy')
    if os.path.exists(rc):
        shutil.rmtree(rc)
    os.makedirs(rc)
    shutil.copytree(os.path.join(repo, 'src'), os.path.join(rc, 'src'))
    shutil.copy(os.path.join(repo, 'Cargo.toml'), os.path.join(rc, 'Cargo.toml'))
    # widen visibility in the copy only (the driver reads arenas, free lists, the cached minimum)
    for dp, _, fs in os.walk(os.path.join(rc, 'src')):
        for f in fs:
            if not f.endswith('.rs'):
                continue
            p = os.path.join(dp, f)
            s = open(p).read()
            import extract
            lines = [(l, i) for i, l in enumerate(s.split('\n'))]
            s = '\n'.join(t for t, _ in extract.widen_visibility(lines, extract.Counts()))
            s = re.sub(r'^mod (\w+);', r'pub mod \1;', s, flags=re.M)
            open(p, 'w').write(s)
    # dev-dependencies of /repo are not needed
    ct = open(os.path.join(rc, 'Cargo.toml')).read()
    ct = re.sub(r'\[dev-dependencies\][^\[]*', '', ct)
    open(os.path.join(rc, 'Cargo.toml'), 'w').write(ct)
    os.makedirs(os.path.join(root, 'drv', 'src'), exist_ok=True)
    drv_src = open(os.path.join(VERIF, 'replay', 'src', 'main.rs')).read()
    # the driver reads private fields (arena, free list, links): a field renamed consistently in /repo (same detection as the
    # extractor's T20b) is renamed in the driver's field accesses too
    try:
        import extract
        per_mod = {}
        broot = os.path.join(VERIF, 'contracts', 'base')
        for dp, _, fs in os.walk(os.path.join(broot, 'src')):
            for f in fs:
                if not f.endswith('.rs'):
                    continue
                rel = os.path.relpath(os.path.join(dp, f), broot)
                cp = os.path.join(repo, rel)
                if not os.path.exists(cp):
                    continue
                bt, ct = open(os.path.join(dp, f)).read(), open(cp).read()
                if bt == ct:
                    continue
                parts = rel.split(os.sep)
                mod = parts[1] if len(parts) > 2 else ''
                b = extract.transform(bt, extract.Counts())
                c = extract.transform(ct, extract.Counts())
                bm = extract._line_map(b, c)[0]
                d = per_mod.setdefault(mod, ([], [], []))
                d[0].extend((b[k][0], c[m[1]][0]) for k, m in bm.items() if m[0] == 'mod')
                d[1].extend(t for t, _ in c)
                d[2].extend(t for t, _ in b)
        frens = {m: extract.field_renames(d[0], d[1], d[2]) for m, d in per_mod.items() if d[0]}
        frens = {m: r for m, r in frens.items() if r}
        if frens:
            # the driver's items are specific to one module of the crate (key / map / set / seg): rename inside those items only
            items = re.split(r'(?m)^(?=(?:fn |impl |struct |pub fn ))', drv_src)
            for q, it in enumerate(items):
                head = it.split('\n', 1)[0]
                mod = ('key' if re.search(r'key|Key|clear_expired', head) else 'map' if re.search(r'map|Map', head) else
                       'set' if re.search(r'set|Set', head) else 'seg' if re.search(r'seg|Seg', head) else None)
                if mod in frens:
                    fr = frens[mod]
                    items[q] = re.sub(r'(?<=\.)(%s)\b' % '|'.join(map(re.escape, fr)), lambda m: fr[m.group(1)], it)
            drv_src = ''.join(items)
    except SystemExit:
        pass
    with open(os.path.join(root, 'drv', 'src', 'main.rs'), 'w') as fh:
        fh.write(drv_src)
    with open(os.path.join(root, 'drv', 'Cargo.toml'), 'w') as fh:
        fh.write('[package]\nname = "replay"\nversion = "0.1.0"\nedition = "2021"\n[dependencies]\ni_tree = { path = "../repo_copy" }\n[profile.dev]\nopt-level = 1\noverflow-checks = true\ndebug-assertions = true\n')
    env = dict(os.environ, CARGO_NET_OFFLINE='true')
    p = subprocess.run(['cargo', 'build', '--offline', '-q'], cwd=os.path.join(root, 'drv'), env=env, capture_output=True, text=True)
    if p.returncode != 0:
        raise RuntimeError('replay driver does not build against the current /repo: ' + p.stderr[-2000:])
    open(os.path.join(root, 'built'), 'w').write('ok')
    return root


def drv(root, args, timeout=3000):
    exe = os.path.join(root, 'drv', 'target', 'debug', 'replay')
    return subprocess.run([exe] + args, capture_output=True, text=True, timeout=timeout)


def run(eng, pid, tier, repo, scratch, seed):
    res = {'engine': 'replay', 'obligations': [], 'failures': [], 'inconclusive': [], 'cmds': [], 'backends': [], 'bounded_components': []}
    try:
        root = prepare(repo, scratch)
    except Exception as ex:
        res['inconclusive'].append({'why': 'replay-driver-build', 'detail': str(ex)[-1500:]})
        return res
    for job in eng.get('jobs', []):
        if job['name'] in ('clear-expired', 'clear-expired-panic'):
            n, tp = (job['thorough'] if tier == 'thorough' else job['quick'])
            t0 = time.time()
            p = drv(root, [job['name'], str(n), str(tp)])
            dt = time.time() - t0
            res['cmds'].append('$SCRATCH/replay/drv/target/debug/replay %s %d %d' % (job['name'], n, tp))
            try:
                j = json.loads(p.stdout.strip().split('\n')[-1])
            except Exception:
                res['inconclusive'].append({'why': 'replay-driver-output', 'detail': (p.stdout + p.stderr)[-800:]})
                continue
            bc = {'name': 'KeyExpList::clear_expired with the real Vec::retain (cross-check of the T24 rewrite; the function itself is verified)' + (' under a panicking expiration accessor' if job['name'].endswith('panic') else ''),
                  'engine': 'replay driver: executable contract on the real function',
                  'bound': ('all vectors of <= %d entries, expirations and time over %d points, every lower bound as cached minimum' % (n, tp)) + ('; a panic injected at every call index of expiration()' if job['name'].endswith('panic') else ''),
                  'cases': j.get('cases'), 'nontrivial': j.get('nontrivial'), 'ok': j.get('ok'), 'wall_s': round(dt, 1), 'label': 'bounded - not counted as proved'}
            res['bounded_components'].append(bc)
            if not j.get('ok'):
                res['failures'].append({'function': 'key::list::KeyExpList::clear_expired', 'mode': 'exec', 'kind': 'bounded contract check failed',
                                        'site_text': j.get('counterexample'), 'site_origin': None, 'rendered': p.stdout[-1500:],
                                        'concrete_input': j.get('counterexample')})
        elif job['name'] == 'explore-panic':
            seeds, steps = (job['thorough'] if tier == 'thorough' else job['quick'])
            t0 = time.time()
            p = drv(root, ['explore-panic', 'all', str(seeds), str(steps)])
            dt = time.time() - t0
            res['cmds'].append('$SCRATCH/replay/drv/target/debug/replay explore-panic all %d %d' % (seeds, steps))
            try:
                j = json.loads(p.stdout.strip().split('\n')[-1])
            except Exception:
                res['inconclusive'].append({'why': 'replay-driver-output', 'detail': (p.stdout + p.stderr)[-800:]})
                continue
            res['bounded_components'].append({
                'name': 'panic injection on all seven collections (cross-check of the unwinding assumption behind the call-site assertions)',
                'engine': 'replay driver: real code under catch_unwind against a twin that never panicked',
                'bound': '%d pseudo-random in-contract histories of %d operations per collection; within each history a panic is injected at EVERY callback index of EVERY operation (ordering, comparator closure, key accessor, expiration accessor)' % (seeds, steps),
                'cases': j.get('injections'), 'nontrivial': j.get('injections'), 'ok': j.get('ok'), 'wall_s': round(dt, 1), 'label': 'bounded (sampled histories) - not counted as proved'})
            if not j.get('ok'):
                res['failures'].append({'function': 'panic injection', 'mode': 'exec', 'kind': 'bounded contract check failed',
                                        'site_text': j.get('counterexample'), 'site_origin': None, 'rendered': p.stdout[-1500:],
                                        'concrete_input': j.get('counterexample'),
                                        'rerun': 'replay explore-panic all %d %d' % (seeds, steps)})
        elif job['name'] == 'finding':
            for fid in job['ids']:
                p = drv(root, ['finding', fid])
                res.setdefault('regressions', []).append({'finding': fid, 'output': p.stdout.strip()[:300], 'ok': p.returncode == 0})
                if p.returncode != 0:
                    res['failures'].append({'function': 'regression witness ' + fid, 'mode': 'exec', 'kind': 'known defect reproduces again',
                                            'site_text': p.stdout.strip()[:300], 'site_origin': None, 'rendered': p.stdout[-1500:],
                                            'concrete_input': p.stdout.strip()[:300]})
    return res


def collections_of(records):
    cols = []
    for r in records:
        fn = (r.get('function') or r.get('fn') or '') + ' ' + str(r.get('unit') or '')
        for key, col in (('key::', 'key'), ('map::', 'map'), ('set::', 'set'), ('seg::', 'seg'), ('lspec', 'map'), ('kani::', 'seg')):
            if key in fn and col not in cols:
                cols.append(col)
        u = r.get('unit')
        if u in ('key', 'map', 'set', 'seg') and u not in cols:
            cols.append(u)
        if u == 'lists':
            for c in ('key', 'map', 'set'):
                if c not in cols:
                    cols.append(c)
    return cols


def search(pid, records, repo, scratch, seeds=4000, steps=80, tags=None):
    """failing-input search on the real code for the collections behind the failed / undecided obligations.
    Returns {'found': bool, 'input': str, 'tags': [...]} - a counterexample counts for `pid` only if it is tagged with it."""
    for f in records:
        if f.get('concrete_input'):
            return {'found': True, 'input': f['concrete_input'], 'tags': [pid], 'how': 'bounded contract check of the replay driver on the real code'}
    try:
        root = prepare(repo, scratch)
    except Exception as ex:
        return {'found': False, 'why': 'replay driver does not build against the current /repo: ' + str(ex)[-400:]}
    tags_wanted = tags
    tried = []
    other = []
    if 'C18' in (tags or [pid]):
        try:
            p = drv(root, ['explore-panic', 'all', '600', '16'], timeout=600)
            j = json.loads(p.stdout.strip().split('\n')[-1])
            tried.append({'collection': 'all (panic injection)', 'ok': j.get('ok'), 'histories': j.get('histories'), 'injections': j.get('injections')})
            if not j.get('ok'):
                return {'found': True, 'input': j.get('counterexample', ''), 'tags': ['C18'], 'collection': 'all',
                        'how': 'replay driver: a panic injected at every callback index of every operation of pseudo-random histories, real code under catch_unwind',
                        'rerun': 'replay explore-panic all 600 16', 'tried': tried}
        except Exception as ex:
            tried.append({'collection': 'all (panic injection)', 'error': repr(ex)[:200]})
    if 'C12' in (tags or [pid]):
        # C12 has its own observation: a cleared collection against a freshly constructed twin given the same operations
        try:
            p = drv(root, ['explore-clear', 'all', str(max(seeds, 4000)), '60'], timeout=600)
            line = p.stdout.strip().split('\n')[-1] if p.stdout.strip() else ''
            j = json.loads(line)
            tried.append({'collection': 'all (clear vs new twin)', 'ok': j.get('ok'), 'histories': j.get('histories'), 'comparisons': j.get('comparisons')})
            if not j.get('ok'):
                ce = j.get('counterexample', '')
                mo = re.match(r'^\[([^\]]*)\]', ce)
                return {'found': True, 'input': ce, 'tags': mo.group(1).split(',') if mo else ['C12'], 'collection': 'all',
                        'how': 'replay driver: pseudo-random histories on the real code; from every clear() on, a freshly constructed twin gets the same operations and must show the same contents',
                        'rerun': 'replay explore-clear all %d 60' % max(seeds, 4000), 'tried': tried}
        except Exception as ex:
            tried.append({'collection': 'all (clear vs new twin)', 'error': repr(ex)[:200]})
    for col in collections_of(records):
        try:
            p = drv(root, ['explore', col, str(seeds), str(steps)], timeout=600)
        except Exception as ex:
            tried.append({'collection': col, 'error': repr(ex)})
            continue
        line = p.stdout.strip().split('\n')[-1] if p.stdout.strip() else ''
        try:
            j = json.loads(line)
        except Exception:
            tried.append({'collection': col, 'output': (p.stdout + p.stderr)[-300:]})
            continue
        tried.append({'collection': col, 'ok': j.get('ok'), 'histories': j.get('histories')})
        if not j.get('ok'):
            ce = j.get('counterexample', '')
            mo = re.match(r'^(?:seed \d+: )?\[([^\]]*)\]', ce)
            tags = mo.group(1).split(',') if mo else []
            rec = {'found': True, 'input': ce, 'tags': tags, 'collection': col,
                   'how': 'replay driver: pseudo-random histories on the real code against a reference model and the executable invariant',
                   'rerun': 'replay explore %s %d %d' % (col, seeds, steps)}
            want = set(tags_wanted or [pid]) | {'C10'}
            if not (want & set(tags)) and ({'C02', 'C11'} & set(tags)):
                # the representation invariant is broken on the real code: follow the same histories past that point to see
                # what it does to the observable behaviour (short time limit: a corrupted arena may make the code loop)
                try:
                    p2 = drv(root, ['explore', col, str(seeds), str(steps), 'continue'], timeout=90)
                    j2 = json.loads(p2.stdout.strip().split('\n')[-1])
                    if not j2.get('ok'):
                        ce2 = j2.get('counterexample', '')
                        mo2 = re.match(r'^(?:seed \d+: )?\[([^\]]*)\]', ce2)
                        tags2 = mo2.group(1).split(',') if mo2 else []
                        if want & set(tags2):
                            rec = {'found': True, 'input': ce2, 'tags': tags2, 'collection': col, 'invariant_broken_first': ce[:400],
                                   'how': 'replay driver: pseudo-random histories on the real code, followed past the first violation of the executable invariant',
                                   'rerun': 'replay explore %s %d %d continue' % (col, seeds, steps), 'tried': tried}
                            return rec
                except Exception as ex:
                    tried.append({'collection': col, 'continue_mode': repr(ex)[:200]})
            if want & set(tags):
                rec['tried'] = tried
                return rec
            other.append(rec)
            # histories that fail for other properties are skipped: look for one that fails for this property
            for extra_args in (['focus=' + ','.join(sorted(want))], ['continue', 'focus=' + ','.join(sorted(want))]):
                try:
                    p3 = drv(root, ['explore', col, str(seeds), str(steps)] + extra_args, timeout=120)
                    j3 = json.loads(p3.stdout.strip().split('\n')[-1])
                except Exception as ex:
                    tried.append({'collection': col, 'focus_mode': repr(ex)[:200]})
                    continue
                tried.append({'collection': col, 'mode': ' '.join(extra_args), 'ok': j3.get('ok')})
                if not j3.get('ok'):
                    ce3 = j3.get('counterexample', '')
                    mo3 = re.match(r'^(?:seed \d+: )?\[([^\]]*)\]', ce3)
                    tags3 = mo3.group(1).split(',') if mo3 else []
                    if want & set(tags3):
                        return {'found': True, 'input': ce3, 'tags': tags3, 'collection': col, 'other_property_first': ce[:300],
                                'how': 'replay driver: pseudo-random histories on the real code (histories failing for other properties skipped)',
                                'rerun': 'replay explore %s %d %d %s' % (col, seeds, steps, ' '.join(extra_args)), 'tried': tried}
    return {'found': False, 'tried': tried, 'counterexamples_for_other_properties': other[:2]}


def rerun(pid, fi, repo, path=None):
    """re-run the recorded failing input against the real code of `repo`"""
    import tempfile
    import shutil
    print('failing input recorded in the replay file: %s' % fi.get('input'))
    cmd = fi.get('rerun')
    if not cmd:
        return 1
    scratch = tempfile.mkdtemp(prefix='itree-verif.replay.', dir='/var/tmp')
    try:
        root = prepare(repo, scratch)
        p = drv(root, cmd.split()[1:], timeout=900)
        print(p.stdout.strip()[-800:])
        if p.returncode != 0:
            print('the re-run of the recorded exploration reproduces a failing input on %s' % repo)
            print('VIOLATION property=%s replay=%s' % (pid, path or '(recorded input)'))
            return 1
        print('the recorded input no longer fails on %s' % repo)
        return 0
    finally:
        shutil.rmtree(scratch, ignore_errors=True)
