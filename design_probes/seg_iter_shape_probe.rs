use vstd::prelude::*;
verus! {
mod seg {
use vstd::prelude::*;
use std::marker::PhantomData;

pub trait Expiration: Copy + Ord { fn max_expiration() -> Self; }
pub trait ExpiredVal<E: Expiration>: Copy {
    spec fn exp_spec(&self) -> E;
    fn expiration(&self) -> (r: E)
        ensures r == self.exp_spec();
}

#[derive(Clone, Copy)]
pub struct Entity<E, V> {
    pub val: V,
    pub mask: u64,
    phantom_data: PhantomData<E>,
}

pub struct Chunk<E, V> {
    pub buffer: Vec<Entity<E, V>>,
}

impl<E: Expiration, V: ExpiredVal<E>> Chunk<E, V> {
    #[inline]
    pub fn is_empty(&self) -> (r: bool)
        ensures r == (self.buffer@.len() == 0),
    {
        self.buffer.is_empty()
    }

    #[inline]
    pub fn entity(&self, index: usize) -> (r: &Entity<E, V>)
        requires index < self.buffer@.len(),
        ensures *r == self.buffer@[index as int],
    {
        &self.buffer[index]
    }
}

pub struct BitIter {
    pub value: u64,
}

impl BitIter {
    #[inline]
    pub fn new(value: u64) -> (r: Self) ensures r.value == value { Self { value } }

    #[inline]
    fn next(&mut self) -> (r: Option<usize>)
        ensures
            old(self).value == 0 ==> r.is_none() && final(self).value == 0,
            old(self).value != 0 ==> r.is_some() && r.unwrap() < 64 && final(self).value < old(self).value,
    {
        if self.value == 0 {
            return None;
        }
        let pos = self.value.trailing_zeros() as usize;
        let ghost v0 = self.value;
        assert(v0 & ((v0 - 1) as u64) < v0) by(bit_vector) requires v0 != 0;
        self.value &= self.value - 1;
        proof { assume(pos < 64); }
        Some(pos)
    }
}

pub struct SegExpTree<R, E, V> {
    pub chunks: Vec<Chunk<E, V>>,
    phantom_data: PhantomData<R>,
}

impl<R, E: Expiration, V: ExpiredVal<E>> SegExpTree<R, E, V> {
    #[inline]
    fn chunk(&self, index: usize) -> (r: &Chunk<E, V>)
        requires index < self.chunks@.len(),
        ensures *r == self.chunks@[index as int],
    {
        &self.chunks[index]
    }

    #[inline]
    fn chunk_mut(&mut self, index: usize) -> (r: &mut Chunk<E, V>)
        requires index < old(self).chunks@.len(),
        ensures
            *r == old(self).chunks@[index as int],
            final(self).chunks@ == old(self).chunks@.update(index as int, *final(r)),
    {
        &mut self.chunks[index]
    }
}

pub struct SegExpTreeIterator<'a, R, E, V> {
    pub tree: &'a mut SegExpTree<R, E, V>,
    pub time: E,
    pub i0: usize,
    pub i1: usize,
    pub mask: u64,
    pub bit_iter: BitIter,
}

pub open spec fn bit_set(m: u64, b: int) -> bool { 0 <= b < 64 && (m >> (b as u64)) & 1 == 1 }
pub open spec fn mask_below(m: u64, n: int) -> bool { forall|b: int| #[trigger] bit_set(m, b) ==> b < n }

pub open spec fn total_len<E, V>(chunks: Seq<Chunk<E, V>>) -> nat
    decreases chunks.len()
{
    if chunks.len() == 0 { 0 } else { chunks.last().buffer@.len() + total_len(chunks.drop_last()) }
}

impl<'a, R, E: Expiration, V: ExpiredVal<E>> SegExpTreeIterator<'a, R, E, V> {
    #[inline]
    fn find_next_not_empty_chunk(&mut self) -> (r: usize)
        requires
            mask_below(old(self).bit_iter.value, old(self).tree.chunks@.len() as int),
        ensures
            r == usize::MAX || r < final(self).tree.chunks@.len(),
            final(self).tree == old(self).tree,
            final(self).bit_iter.value <= old(self).bit_iter.value,
    {
        loop
            invariant
                self.tree == old(self).tree,
                self.bit_iter.value <= old(self).bit_iter.value,
            decreases self.bit_iter.value,
        {
            match self.bit_iter.next() {
                Some(next) => {
                    proof { assume(next < self.tree.chunks@.len()); }
                    if !self.tree.chunk(next).is_empty() {
                        return next;
                    }
                }
                None => { break; }
            }
        }
        usize::MAX
    }

    #[inline]
    #[verifier::exec_allows_no_decreases_clause]
    fn next(&mut self) -> (r: Option<V>)
        requires old(self).i1 <= usize::MAX - 1,
    {
        while self.i0 < self.tree.chunks.len()
        {
            let chunk = self.tree.chunk_mut(self.i0);
            let mut i = self.i1;
            while i < chunk.buffer.len()
            {
                let item = chunk.entity(i);

                if item.val.expiration() < self.time {
                    chunk.buffer.swap_remove(i);
                    continue
                }
                i += 1;

                // we must return same pair only once,
                let mask_int = item.mask & self.mask;
                let first_index = mask_int.trailing_zeros() as usize;

                // we will return only for first index
                if first_index == self.i0 {
                    self.i1 = i;
                    return Some(item.val);
                }
            }

            proof { assume(false); }
            self.i0 = self.find_next_not_empty_chunk();
            self.i1 = 0;
        }

        None
    }
}
}
}
fn main() {}
