use vstd::prelude::*;
verus! {
mod seg {
use vstd::prelude::*;
use vstd::std_specs::bits::*;
use std::marker::PhantomData;

pub trait ExpiredVal: Copy {
    spec fn exp_spec(&self) -> u64;
    fn expiration(&self) -> (r: u64)
        ensures r == self.exp_spec();
}

pub struct Entity<V> {
    pub val: V,
    pub mask: u64,
}
impl<V: Copy> Copy for Entity<V> {}
impl<V: Copy> Clone for Entity<V> {
    #[verifier::external_body]
    fn clone(&self) -> (r: Self) ensures r == *self { *self }
}

pub struct Chunk<V> {
    pub buffer: Vec<Entity<V>>,
}

impl<V: ExpiredVal> Chunk<V> {
    #[inline]
    pub fn is_empty(&self) -> (r: bool)
        ensures r == (self.buffer@.len() == 0),
    {
        self.buffer.is_empty()
    }

    #[inline]
    pub fn entity(&self, index: usize) -> (r: &Entity<V>)
        requires index < self.buffer@.len(),
        ensures *r == self.buffer@[index as int],
    {
        &self.buffer[index]
    }
}

// ---------------------------------------------------------------- bits

pub open spec fn bit_set(m: u64, b: int) -> bool { 0 <= b < 64 && (m >> (b as u64)) & 1 == 1 }
pub open spec fn mask_below(m: u64, n: int) -> bool { forall|b: int| #[trigger] bit_set(m, b) ==> b < n }
// lowest common bit of two masks (64 if none)
pub open spec fn lcb(a: u64, b: u64) -> int { u64_trailing_zeros(a & b) as int }

pub proof fn lemma_tz(v: u64)
    ensures
        v == 0 ==> u64_trailing_zeros(v) == 64,
        v != 0 ==> u64_trailing_zeros(v) < 64 && bit_set(v, u64_trailing_zeros(v) as int) && forall|b: int| 0 <= b < u64_trailing_zeros(v) ==> !bit_set(v, b),
{
    axiom_u64_trailing_zeros(v);
    let r = u64_trailing_zeros(v);
    if v != 0 {
        assert forall|b: int| 0 <= b < r implies !bit_set(v, b) by {
            let bb = b as u64;
            assert((v >> bb) & 1u64 == 0u64);
        }
    }
}

pub proof fn lemma_bit_and(a: u64, b: u64, i: int)
    requires 0 <= i < 64,
    ensures bit_set(a & b, i) == (bit_set(a, i) && bit_set(b, i)),
{
    let s = i as u64;
    assert(((a & b) >> s) & 1 == 1 <==> ((a >> s) & 1 == 1 && (b >> s) & 1 == 1)) by(bit_vector) requires s < 64;
}

pub proof fn lemma_clear_lowest(v: u64, i: int)
    requires v != 0, 0 <= i < 64,
    ensures bit_set(v & ((v - 1) as u64), i) == (bit_set(v, i) && i != u64_trailing_zeros(v) as int),
{
    lemma_tz(v);
    let t = u64_trailing_zeros(v) as u64;
    let s = i as u64;
    assert(((v & ((v - 1) as u64)) >> s) & 1 == 1 <==> ((v >> s) & 1 == 1 && s != t)) by(bit_vector)
        requires v != 0, s < 64, t < 64, (v >> t) & 1 == 1, forall|b: u64| b < t ==> (v >> b) & 1 == 0;
}

pub struct BitIter {
    pub value: u64,
}

impl BitIter {
    #[inline]
    pub fn new(value: u64) -> (r: Self) ensures r.value == value { Self { value } }

    #[inline]
    fn next(&mut self) -> (r: Option<usize>)
        ensures
            old(self).value == 0 ==> r.is_none() && final(self).value == 0,
            old(self).value != 0 ==> {
                &&& r.is_some() && r.unwrap() as int == u64_trailing_zeros(old(self).value) as int
                &&& final(self).value == old(self).value & ((old(self).value - 1) as u64)
                &&& bit_set(old(self).value, r.unwrap() as int)
                &&& forall|i: int| 0 <= i < 64 ==> (#[trigger] bit_set(final(self).value, i) == (bit_set(old(self).value, i) && i != r.unwrap() as int))
                &&& forall|i: int| 0 <= i < r.unwrap() as int ==> !bit_set(old(self).value, i)
            },
    {
        if self.value == 0 {
            return None;
        }
        let pos = self.value.trailing_zeros() as usize;
        proof {
            let v0 = self.value;
            lemma_tz(v0);
            assert forall|i: int| 0 <= i < 64 implies (#[trigger] bit_set(v0 & ((v0 - 1) as u64), i) == (bit_set(v0, i) && i != pos as int)) by {
                lemma_clear_lowest(v0, i);
            }
        }
        self.value &= self.value - 1;
        Some(pos)
    }
}

// ---------------------------------------------------------------- ghost model of the segment tree

pub ghost struct Item<V> { pub val: V, pub mask: u64 }
// history variables of the tree: every value inserted since the last clear, and the latest query time
pub ghost struct SGT<V> { pub items: Seq<Item<V>>, pub tmax: u64 }

pub struct SegExpTree<V> {
    pub chunks: Vec<Chunk<V>>,
    pub sg: Ghost<SGT<V>>,
}

pub open spec fn chunk_ok<V>(buf: Seq<Entity<V>>, ids: Seq<int>, items: Seq<Item<V>>, c: int) -> bool {
    &&& ids.len() == buf.len()
    &&& forall|k: int| 0 <= k < ids.len() ==> {
            let id = #[trigger] ids[k];
            0 <= id < items.len() && buf[k].val == items[id].val && buf[k].mask == items[id].mask && bit_set(items[id].mask, c)
        }
    &&& forall|k1: int, k2: int| 0 <= k1 < k2 < ids.len() ==> ids[k1] != ids[k2]
}

// tree invariant with an explicit witness cids: which item each physical copy stands for
// every copy an item should have is either physically present or the item expired before the latest query time
pub open spec fn present<V: ExpiredVal>(nchunks: int, sg: SGT<V>, cids: Seq<Seq<int>>, id: int, c: int) -> bool {
    c < nchunks && (cids[c].contains(id) || sg.items[id].val.exp_spec() < sg.tmax)
}

pub open spec fn tiw<V: ExpiredVal>(chunks: Seq<Chunk<V>>, sg: SGT<V>, cids: Seq<Seq<int>>) -> bool {
    &&& cids.len() == chunks.len()
    &&& chunks.len() <= 64
    &&& forall|c: int| 0 <= c < chunks.len() ==> #[trigger] chunk_ok(chunks[c].buffer@, cids[c], sg.items, c)
    &&& forall|id: int, c: int| 0 <= id < sg.items.len() && bit_set(sg.items[id].mask, c) ==> #[trigger] present(chunks.len() as int, sg, cids, id, c)
}

pub open spec fn ti<V: ExpiredVal>(chunks: Seq<Chunk<V>>, sg: SGT<V>) -> bool {
    exists|cids: Seq<Seq<int>>| #[trigger] tiw(chunks, sg, cids)
}

impl<V: ExpiredVal> SegExpTree<V> {
    #[inline]
    fn chunk(&self, index: usize) -> (r: &Chunk<V>)
        requires index < self.chunks@.len(),
        ensures *r == self.chunks@[index as int],
    {
        &self.chunks[index]
    }

    #[inline]
    fn chunk_mut(&mut self, index: usize) -> (r: &mut Chunk<V>)
        requires index < old(self).chunks@.len(),
        ensures
            *r == old(self).chunks@[index as int],
            final(self).chunks@ == old(self).chunks@.update(index as int, *final(r)),
            final(self).sg == old(self).sg,
    {
        &mut self.chunks[index]
    }
}

// ---------------------------------------------------------------- iterator

pub struct SegExpTreeIterator<'a, V> {
    pub tree: &'a mut SegExpTree<V>,
    pub time: u64,
    pub i0: usize,
    pub i1: usize,
    pub mask: u64,
    pub bit_iter: BitIter,
    pub yielded: Ghost<Seq<int>>,       // ids yielded so far
    pub cids: Ghost<Seq<Seq<int>>>,     // witness of the tree invariant, kept current while iterating
}

pub open spec fn live<V: ExpiredVal>(it: Item<V>, time: u64) -> bool { it.val.exp_spec() >= time }

// should item id have been yielded by a scan that has finished all query chunks below i0 and the first i1 copies of chunk i0?
pub open spec fn want<V: ExpiredVal>(items: Seq<Item<V>>, cids: Seq<Seq<int>>, qmask: u64, time: u64, i0: int, i1: int, id: int) -> bool {
    let l = lcb(items[id].mask, qmask);
    &&& live(items[id], time)
    &&& (items[id].mask & qmask) != 0
    &&& (l < i0 || (l == i0 && exists|k: int| 0 <= k < i1 && k < cids[i0].len() && #[trigger] cids[i0][k] == id))
}

pub open spec fn all_live<V: ExpiredVal>(buf: Seq<Entity<V>>, n: int, time: u64) -> bool {
    forall|k: int| 0 <= k < n && k < buf.len() ==> (#[trigger] buf[k]).val.exp_spec() >= time
}

pub open spec fn ji<V: ExpiredVal>(chunks: Seq<Chunk<V>>, sg: SGT<V>, cids: Seq<Seq<int>>, qmask: u64, rem: u64, time: u64, i0: usize, i1: int, yielded: Seq<int>) -> bool {
    &&& tiw(chunks, sg, cids)
    &&& sg.tmax == time
    &&& mask_below(qmask, chunks.len() as int)
    &&& forall|b: int| 0 <= b < 64 ==> (#[trigger] bit_set(rem, b) == (bit_set(qmask, b) && b > i0 as int))
    &&& (i0 == usize::MAX || ((i0 as int) < chunks.len() && bit_set(qmask, i0 as int) && 0 <= i1 <= chunks[i0 as int].buffer@.len()))
    &&& forall|j1: int, j2: int| 0 <= j1 < j2 < yielded.len() ==> yielded[j1] != yielded[j2]
    &&& forall|j: int| 0 <= j < yielded.len() ==> 0 <= #[trigger] yielded[j] < sg.items.len()
    &&& forall|id: int| 0 <= id < sg.items.len() ==> (#[trigger] yielded.contains(id) == want(sg.items, cids, qmask, time, i0 as int, i1, id))
    &&& forall|c: int| 0 <= c < chunks.len() && bit_set(qmask, c) && c < i0 as int ==> #[trigger] all_live(chunks[c].buffer@, chunks[c].buffer@.len() as int, time)
    &&& i0 != usize::MAX ==> all_live(chunks[i0 as int].buffer@, i1, time)
}


// ---------------------------------------------------------------- the four scan steps as pure lemmas

pub open spec fn swap_removed<T>(s: Seq<T>, i: int) -> Seq<T> { s.update(i, s.last()).drop_last() }

// an expired copy at the cursor is swap-removed: the scanned prefix is untouched, the invariant survives
pub proof fn lemma_scan_remove<V: ExpiredVal>(chunks: Seq<Chunk<V>>, sg: SGT<V>, cids: Seq<Seq<int>>, qmask: u64, rem: u64, time: u64, i0: usize, i: int, yielded: Seq<int>, ch1: Chunk<V>)
    requires
        ji(chunks, sg, cids, qmask, rem, time, i0, i, yielded),
        i0 != usize::MAX, 0 <= i < chunks[i0 as int].buffer@.len(),
        chunks[i0 as int].buffer@[i].val.exp_spec() < time,
        ch1.buffer@ == swap_removed(chunks[i0 as int].buffer@, i),
    ensures
        ji(chunks.update(i0 as int, ch1), sg, cids.update(i0 as int, swap_removed(cids[i0 as int], i)), qmask, rem, time, i0, i, yielded),
{
    let c0 = i0 as int;
    let buf = chunks[c0].buffer@; let ids = cids[c0];
    let buf1 = ch1.buffer@; let ids1 = swap_removed(ids, i);
    let chunks1 = chunks.update(c0, ch1); let cids1 = cids.update(c0, ids1);
    let n = buf.len() as int;
    assert(chunk_ok(buf, ids, sg.items, c0));
    let gone = ids[i];
    assert(chunk_ok(buf1, ids1, sg.items, c0)) by {
        assert forall|k: int| 0 <= k < ids1.len() implies {
            let id = #[trigger] ids1[k];
            0 <= id < sg.items.len() && buf1[k].val == sg.items[id].val && buf1[k].mask == sg.items[id].mask && bit_set(sg.items[id].mask, c0)
        } by {
            if k == i { assert(ids1[k] == ids[n - 1]); assert(buf1[k] == buf[n - 1]); } else { assert(ids1[k] == ids[k]); assert(buf1[k] == buf[k]); }
        }
        assert forall|k1: int, k2: int| 0 <= k1 < k2 < ids1.len() implies ids1[k1] != ids1[k2] by {
            let o1 = if k1 == i { n - 1 } else { k1 }; let o2 = if k2 == i { n - 1 } else { k2 };
            assert(ids1[k1] == ids[o1] && ids1[k2] == ids[o2]);
        }
    }
    assert forall|c: int| 0 <= c < chunks1.len() implies #[trigger] chunk_ok(chunks1[c].buffer@, cids1[c], sg.items, c) by {
        if c != c0 { assert(chunk_ok(chunks[c].buffer@, cids[c], sg.items, c)); }
    }
    // every other id of the chunk is still there
    assert forall|id: int| id != gone && ids.contains(id) implies ids1.contains(id) by {
        let k = choose|k: int| 0 <= k < ids.len() && ids[k] == id;
        if k == n - 1 { assert(ids1[i] == id); } else { assert(ids1[k] == id); }
    }
    assert(0 <= c0 < cids.len() && cids1[c0] == ids1);
    assert forall|id: int, c: int| 0 <= id < sg.items.len() && bit_set(sg.items[id].mask, c) implies
            #[trigger] present(chunks1.len() as int, sg, cids1, id, c) by {
        assert(present(chunks.len() as int, sg, cids, id, c));
        if c == c0 && id == gone { assert(buf[i].val == sg.items[gone].val); }
        if c != c0 { assert(cids1[c] == cids[c]); }
    }
    assert(0 <= c0 < cids.len() && cids1[c0] == ids1 && ids1.len() == n - 1);
    assert forall|k: int| 0 <= k < i implies ids1[k] == ids[k] by { }
    assert forall|id: int| 0 <= id < sg.items.len() implies (#[trigger] yielded.contains(id) == want(sg.items, cids1, qmask, time, c0, i, id)) by {
        assert(yielded.contains(id) == want(sg.items, cids, qmask, time, c0, i, id));
        let l = lcb(sg.items[id].mask, qmask);
        if l == c0 {
            if exists|k: int| 0 <= k < i && k < ids.len() && #[trigger] ids[k] == id {
                let k = choose|k: int| 0 <= k < i && k < ids.len() && #[trigger] ids[k] == id;
                assert(ids1[k] == id);
            }
            if exists|k: int| 0 <= k < i && k < ids1.len() && #[trigger] ids1[k] == id {
                let k = choose|k: int| 0 <= k < i && k < ids1.len() && #[trigger] ids1[k] == id;
                assert(ids[k] == id);
            }
        }
    }
    assert forall|c: int| 0 <= c < chunks1.len() && bit_set(qmask, c) && c < c0 implies #[trigger] all_live(chunks1[c].buffer@, chunks1[c].buffer@.len() as int, time) by {
        assert(all_live(chunks[c].buffer@, chunks[c].buffer@.len() as int, time));
    }
    assert(all_live(buf1, i, time)) by {
        assert forall|k: int| 0 <= k < i && k < buf1.len() implies (#[trigger] buf1[k]).val.exp_spec() >= time by { assert(buf1[k] == buf[k]); }
    }
    assert(cids1.len() == chunks1.len());
    assert(chunks1.len() <= 64);
    assert(forall|c: int| 0 <= c < chunks1.len() ==> #[trigger] chunk_ok(chunks1[c].buffer@, cids1[c], sg.items, c));
    assert(tiw(chunks1, sg, cids1));
    assert(mask_below(qmask, chunks1.len() as int));
    assert(chunks1[c0].buffer@ == buf1);
    assert((c0) < chunks1.len() && bit_set(qmask, c0) && 0 <= i <= chunks1[c0].buffer@.len());
    assert(all_live(chunks1[c0].buffer@, i, time));
}


// a live copy at the cursor whose lowest common bit with the query mask is this chunk is yielded
pub proof fn lemma_scan_yield<V: ExpiredVal>(chunks: Seq<Chunk<V>>, sg: SGT<V>, cids: Seq<Seq<int>>, qmask: u64, rem: u64, time: u64, i0: usize, i: int, yielded: Seq<int>)
    requires
        ji(chunks, sg, cids, qmask, rem, time, i0, i, yielded),
        i0 != usize::MAX, 0 <= i < chunks[i0 as int].buffer@.len(),
        chunks[i0 as int].buffer@[i].val.exp_spec() >= time,
        lcb(chunks[i0 as int].buffer@[i].mask, qmask) == i0 as int,
    ensures
        ji(chunks, sg, cids, qmask, rem, time, i0, i + 1, yielded.push(cids[i0 as int][i])),
        0 <= cids[i0 as int][i] < sg.items.len(),
        sg.items[cids[i0 as int][i]].val == chunks[i0 as int].buffer@[i].val,
{
    let c0 = i0 as int;
    let buf = chunks[c0].buffer@; let ids = cids[c0];
    let me = ids[i];
    let y1 = yielded.push(me);
    assert(chunk_ok(buf, ids, sg.items, c0));
    assert(sg.items[me].mask == buf[i].mask && sg.items[me].val == buf[i].val);
    lemma_tz(sg.items[me].mask & qmask);
    lemma_bit_and(sg.items[me].mask, qmask, c0);
    // me was not yielded before: its lowest common bit is this chunk and it sits at the cursor
    assert(!yielded.contains(me)) by {
        assert(yielded.contains(me) == want(sg.items, cids, qmask, time, c0, i, me));
        if exists|k: int| 0 <= k < i && k < ids.len() && #[trigger] ids[k] == me {
            let k = choose|k: int| 0 <= k < i && k < ids.len() && #[trigger] ids[k] == me;
            assert(ids[k] != ids[i]);
        }
    }
    assert forall|j1: int, j2: int| 0 <= j1 < j2 < y1.len() implies y1[j1] != y1[j2] by {
        if j2 == yielded.len() { assert(y1[j1] == yielded[j1]); if yielded[j1] == me { assert(yielded.contains(me)); } }
        else { assert(y1[j1] == yielded[j1] && y1[j2] == yielded[j2]); }
    }
    assert forall|j: int| 0 <= j < y1.len() implies 0 <= #[trigger] y1[j] < sg.items.len() by {
        if j < yielded.len() { assert(y1[j] == yielded[j]); }
    }
    assert forall|id: int| 0 <= id < sg.items.len() implies (#[trigger] y1.contains(id) == want(sg.items, cids, qmask, time, c0, i + 1, id)) by {
        assert(yielded.contains(id) == want(sg.items, cids, qmask, time, c0, i, id));
        if id == me {
            assert(y1[yielded.len() as int] == me);
            assert(ids[i] == me);
        } else {
            if y1.contains(id) {
                let j = choose|j: int| 0 <= j < y1.len() && y1[j] == id;
                assert(j < yielded.len()); assert(yielded[j] == id);
            }
            if yielded.contains(id) {
                let j = choose|j: int| 0 <= j < yielded.len() && yielded[j] == id;
                assert(y1[j] == id);
            }
            if exists|k: int| 0 <= k < i + 1 && k < ids.len() && #[trigger] ids[k] == id {
                let k = choose|k: int| 0 <= k < i + 1 && k < ids.len() && #[trigger] ids[k] == id;
                assert(k != i);
            }
        }
    }
    assert(all_live(buf, i + 1, time)) by {
        assert(all_live(buf, i, time));
    }
}

// a live copy at the cursor that will be (or was) reported from a lower chunk is passed over
pub proof fn lemma_scan_skip<V: ExpiredVal>(chunks: Seq<Chunk<V>>, sg: SGT<V>, cids: Seq<Seq<int>>, qmask: u64, rem: u64, time: u64, i0: usize, i: int, yielded: Seq<int>)
    requires
        ji(chunks, sg, cids, qmask, rem, time, i0, i, yielded),
        i0 != usize::MAX, 0 <= i < chunks[i0 as int].buffer@.len(),
        chunks[i0 as int].buffer@[i].val.exp_spec() >= time,
        lcb(chunks[i0 as int].buffer@[i].mask, qmask) != i0 as int,
    ensures
        ji(chunks, sg, cids, qmask, rem, time, i0, i + 1, yielded),
{
    let c0 = i0 as int;
    let buf = chunks[c0].buffer@; let ids = cids[c0];
    let me = ids[i];
    assert(chunk_ok(buf, ids, sg.items, c0));
    assert(sg.items[me].mask == buf[i].mask);
    assert forall|id: int| 0 <= id < sg.items.len() implies (#[trigger] yielded.contains(id) == want(sg.items, cids, qmask, time, c0, i + 1, id)) by {
        assert(yielded.contains(id) == want(sg.items, cids, qmask, time, c0, i, id));
        if lcb(sg.items[id].mask, qmask) == c0 {
            if exists|k: int| 0 <= k < i + 1 && k < ids.len() && #[trigger] ids[k] == id {
                let k = choose|k: int| 0 <= k < i + 1 && k < ids.len() && #[trigger] ids[k] == id;
                assert(k != i);
            }
        }
    }
    assert(all_live(buf, i + 1, time)) by { assert(all_live(buf, i, time)); }
}

// chunk i0 is exhausted; the next non-empty query chunk is r (or none): everything between is empty
pub proof fn lemma_scan_advance<V: ExpiredVal>(chunks: Seq<Chunk<V>>, sg: SGT<V>, cids: Seq<Seq<int>>, qmask: u64, rem: u64, time: u64, i0: usize, yielded: Seq<int>, r: usize, rem1: u64)
    requires
        i0 != usize::MAX,
        ji(chunks, sg, cids, qmask, rem, time, i0, chunks[i0 as int].buffer@.len() as int, yielded),
        r == usize::MAX ==> rem1 == 0 && forall|b: int| bit_set(rem, b) ==> #[trigger] chunks[b].buffer@.len() == 0,
        r != usize::MAX ==> {
            &&& (r as int) < chunks.len() && bit_set(rem, r as int)
            &&& forall|b: int| bit_set(rem, b) && b < r as int ==> #[trigger] chunks[b].buffer@.len() == 0
            &&& forall|b: int| 0 <= b < 64 ==> (#[trigger] bit_set(rem1, b) == (bit_set(rem, b) && b > r as int))
        },
    ensures
        ji(chunks, sg, cids, qmask, rem1, time, r, 0, yielded),
{
    let c0 = i0 as int; let c1 = r as int;
    assert(r != usize::MAX ==> c1 > c0) by { if r != usize::MAX { assert(bit_set(rem, c1) == (bit_set(qmask, c1) && c1 > c0)); } }
    assert forall|b: int| 0 <= b < 64 implies (#[trigger] bit_set(rem1, b) == (bit_set(qmask, b) && b > c1)) by {
        assert(bit_set(rem, b) == (bit_set(qmask, b) && b > c0));
        if r == usize::MAX { assert(!bit_set(0u64, b)) by { let s = b as u64; assert((0u64 >> s) & 1 == 0) by(bit_vector); } }
    }
    // a query chunk strictly between the old and the new cursor is empty
    assert forall|b: int| c0 < b < c1 && bit_set(qmask, b) && b < chunks.len() implies chunks[b].buffer@.len() == 0 by {
        assert(bit_set(rem, b) == (bit_set(qmask, b) && b > c0));
    }
    assert forall|id: int| 0 <= id < sg.items.len() implies (#[trigger] yielded.contains(id) == want(sg.items, cids, qmask, time, c1, 0, id)) by {
        let n0 = chunks[c0].buffer@.len() as int;
        assert(yielded.contains(id) == want(sg.items, cids, qmask, time, c0, n0, id));
        let m = sg.items[id].mask;
        let l = lcb(m, qmask);
        if live(sg.items[id], time) && (m & qmask) != 0 {
            lemma_tz(m & qmask);
            lemma_bit_and(m, qmask, l);
            assert(bit_set(m, l) && bit_set(qmask, l));
            assert(present(chunks.len() as int, sg, cids, id, l));
            assert(cids[l].contains(id));
            assert(chunk_ok(chunks[l].buffer@, cids[l], sg.items, l));
            if l == c0 {
                let k = choose|k: int| 0 <= k < cids[l].len() && cids[l][k] == id;
                assert(0 <= k < n0 && k < cids[c0].len() && cids[c0][k] == id);
            }
            if c0 < l < c1 { assert(chunks[l].buffer@.len() == 0); }
        }
    }
    assert forall|c: int| 0 <= c < chunks.len() && bit_set(qmask, c) && c < c1 implies #[trigger] all_live(chunks[c].buffer@, chunks[c].buffer@.len() as int, time) by {
        if c < c0 { }
        else if c == c0 { }
        else { assert(chunks[c].buffer@.len() == 0); }
    }
    if r != usize::MAX {
        assert(bit_set(rem, c1) == (bit_set(qmask, c1) && c1 > c0));
    }
}


// when the scan is over, exactly the live items sharing a place with the query mask were yielded, each once (C03),
// and every scanned chunk holds only live copies (C16)
pub proof fn lemma_scan_done<V: ExpiredVal>(chunks: Seq<Chunk<V>>, sg: SGT<V>, cids: Seq<Seq<int>>, qmask: u64, rem: u64, time: u64, i1: int, yielded: Seq<int>)
    requires
        ji(chunks, sg, cids, qmask, rem, time, usize::MAX, i1, yielded),
    ensures
        forall|j1: int, j2: int| 0 <= j1 < j2 < yielded.len() ==> yielded[j1] != yielded[j2],
        forall|id: int| 0 <= id < sg.items.len() ==> (#[trigger] yielded.contains(id) == (live(sg.items[id], time) && (sg.items[id].mask & qmask) != 0)),
        forall|c: int| 0 <= c < chunks.len() && bit_set(qmask, c) ==> #[trigger] all_live(chunks[c].buffer@, chunks[c].buffer@.len() as int, time),
{
    assert forall|id: int| 0 <= id < sg.items.len() implies (#[trigger] yielded.contains(id) == (live(sg.items[id], time) && (sg.items[id].mask & qmask) != 0)) by {
        assert(yielded.contains(id) == want(sg.items, cids, qmask, time, usize::MAX as int, i1, id));
        lemma_tz(sg.items[id].mask & qmask);
    }
}

// raising the latest query time keeps the tree invariant (expired stays expired)
pub proof fn lemma_raise_tmax<V: ExpiredVal>(chunks: Seq<Chunk<V>>, sg: SGT<V>, cids: Seq<Seq<int>>, time: u64)
    requires tiw(chunks, sg, cids), time >= sg.tmax,
    ensures tiw(chunks, SGT { items: sg.items, tmax: time }, cids),
{
    let sg1 = SGT { items: sg.items, tmax: time };
    assert forall|c: int| 0 <= c < chunks.len() implies #[trigger] chunk_ok(chunks[c].buffer@, cids[c], sg1.items, c) by {
        assert(chunk_ok(chunks[c].buffer@, cids[c], sg.items, c));
    }
    assert forall|id: int, c: int| 0 <= id < sg1.items.len() && bit_set(sg1.items[id].mask, c) implies #[trigger] present(chunks.len() as int, sg1, cids, id, c) by {
        assert(present(chunks.len() as int, sg, cids, id, c));
    }
}


// the state right after construction: nothing scanned, nothing yielded, the cursor on the first non-empty query chunk
pub proof fn lemma_scan_start<V: ExpiredVal>(chunks: Seq<Chunk<V>>, sg: SGT<V>, cids: Seq<Seq<int>>, qmask: u64, time: u64, r: usize, rem1: u64)
    requires
        tiw(chunks, sg, cids), sg.tmax == time, mask_below(qmask, chunks.len() as int),
        r == usize::MAX ==> rem1 == 0 && forall|b: int| bit_set(qmask, b) ==> #[trigger] chunks[b].buffer@.len() == 0,
        r != usize::MAX ==> {
            &&& (r as int) < chunks.len() && bit_set(qmask, r as int)
            &&& forall|b: int| bit_set(qmask, b) && b < r as int ==> #[trigger] chunks[b].buffer@.len() == 0
            &&& forall|b: int| 0 <= b < 64 ==> (#[trigger] bit_set(rem1, b) == (bit_set(qmask, b) && b > r as int))
        },
    ensures
        ji(chunks, sg, cids, qmask, rem1, time, r, 0, Seq::<int>::empty()),
{
    let c1 = r as int;
    let y = Seq::<int>::empty();
    assert forall|b: int| 0 <= b < 64 implies (#[trigger] bit_set(rem1, b) == (bit_set(qmask, b) && b > c1)) by {
        if r == usize::MAX { assert(!bit_set(0u64, b)) by { let s = b as u64; assert((0u64 >> s) & 1 == 0) by(bit_vector); } }
    }
    assert forall|id: int| 0 <= id < sg.items.len() implies (#[trigger] y.contains(id) == want(sg.items, cids, qmask, time, c1, 0, id)) by {
        let m = sg.items[id].mask;
        let l = lcb(m, qmask);
        if live(sg.items[id], time) && (m & qmask) != 0 && l < c1 {
            lemma_tz(m & qmask);
            lemma_bit_and(m, qmask, l);
            assert(present(chunks.len() as int, sg, cids, id, l));
            assert(cids[l].contains(id));
            assert(chunk_ok(chunks[l].buffer@, cids[l], sg.items, l));
            assert(chunks[l].buffer@.len() == 0);
        }
    }
    assert forall|c: int| 0 <= c < chunks.len() && bit_set(qmask, c) && c < c1 implies #[trigger] all_live(chunks[c].buffer@, chunks[c].buffer@.len() as int, time) by {
        assert(chunks[c].buffer@.len() == 0);
    }
}

impl<'a, V: ExpiredVal> SegExpTreeIterator<'a, V> {
    #[inline]
    fn new(mask: u64, time: u64, tree: &'a mut SegExpTree<V>) -> (r: Self)
        requires
            ti(old(tree).chunks@, old(tree).sg@),
            time >= old(tree).sg@.tmax,                       // query times never decrease
            mask_below(mask, old(tree).chunks@.len() as int),  // every visited place is backed by storage (C14/C15)
        ensures
            ji(r.tree.chunks@, r.tree.sg@, r.cids@, r.mask, r.bit_iter.value, r.time, r.i0, r.i1 as int, r.yielded@),
            r.mask == mask, r.time == time, r.yielded@.len() == 0,
            r.tree.sg@.items == old(tree).sg@.items, r.tree.chunks@ == old(tree).chunks@,
    {
        let ghost cids0 = choose|cids: Seq<Seq<int>>| #[trigger] tiw(tree.chunks@, tree.sg@, cids);
        proof {
            lemma_raise_tmax(tree.chunks@, tree.sg@, cids0, time);
            tree.sg@ = SGT { items: tree.sg@.items, tmax: time };
        }
        let mut iter = SegExpTreeIterator {
            tree,
            time,
            i0: 0,
            i1: 0,
            mask,
            bit_iter: BitIter::new(mask),
            yielded: Ghost(Seq::empty()),
            cids: Ghost(cids0),
        };

        // Find the first valid chunk
        let ghost rem0 = iter.bit_iter.value;
        iter.i0 = iter.find_next_not_empty_chunk();
        proof {
            lemma_scan_start(iter.tree.chunks@, iter.tree.sg@, iter.cids@, mask, time, iter.i0, iter.bit_iter.value);
        }

        iter
    }

    #[inline]
    fn find_next_not_empty_chunk(&mut self) -> (r: usize)
        requires
            mask_below(old(self).bit_iter.value, old(self).tree.chunks@.len() as int),
        ensures
            final(self).tree == old(self).tree,
            final(self).time == old(self).time, final(self).i0 == old(self).i0, final(self).i1 == old(self).i1,
            final(self).mask == old(self).mask, final(self).yielded == old(self).yielded, final(self).cids == old(self).cids,
            r == usize::MAX ==> final(self).bit_iter.value == 0
                && forall|b: int| bit_set(old(self).bit_iter.value, b) ==> #[trigger] old(self).tree.chunks@[b].buffer@.len() == 0,
            r != usize::MAX ==> {
                &&& final(self).bit_iter.value < old(self).bit_iter.value
                &&& (r as int) < old(self).tree.chunks@.len() && bit_set(old(self).bit_iter.value, r as int)
                &&& old(self).tree.chunks@[r as int].buffer@.len() > 0
                &&& forall|b: int| bit_set(old(self).bit_iter.value, b) && b < r as int ==> #[trigger] old(self).tree.chunks@[b].buffer@.len() == 0
                &&& forall|b: int| 0 <= b < 64 ==> (#[trigger] bit_set(final(self).bit_iter.value, b) == (bit_set(old(self).bit_iter.value, b) && b > r as int))
            },
    {
        let ghost mut lo = 0int;
        loop
            invariant
                self.tree == old(self).tree,
                self.time == old(self).time, self.i0 == old(self).i0, self.i1 == old(self).i1,
                self.mask == old(self).mask, self.yielded == old(self).yielded, self.cids == old(self).cids,
                mask_below(old(self).bit_iter.value, old(self).tree.chunks@.len() as int),
                self.bit_iter.value <= old(self).bit_iter.value,
                // the bits consumed so far are the lowest ones and their chunks are empty
                0 <= lo <= 64,
                forall|b: int| 0 <= b < 64 ==> (#[trigger] bit_set(self.bit_iter.value, b) == (bit_set(old(self).bit_iter.value, b) && b >= lo)),
                forall|b: int| bit_set(old(self).bit_iter.value, b) && b < lo ==> #[trigger] old(self).tree.chunks@[b].buffer@.len() == 0,
            ensures
                self.bit_iter.value == 0,
                forall|b: int| bit_set(old(self).bit_iter.value, b) ==> #[trigger] old(self).tree.chunks@[b].buffer@.len() == 0,
            decreases self.bit_iter.value,
        {
            let ghost v0 = self.bit_iter.value;
            let ghost lo0 = lo;
            match self.bit_iter.next() {
                Some(next) => {
                    proof {
                        assert(bit_set(v0, next as int));
                        assert(bit_set(old(self).bit_iter.value, next as int));
                        assert(self.bit_iter.value < v0) by {
                            // clearing the lowest set bit decreases the value
                            assert(v0 & ((v0 - 1) as u64) < v0) by(bit_vector) requires v0 != 0;
                        }
                    }
                    if !self.tree.chunk(next).is_empty() {
                        proof {
                            assert forall|b: int| bit_set(old(self).bit_iter.value, b) && b < next as int implies #[trigger] old(self).tree.chunks@[b].buffer@.len() == 0 by {
                                if b >= lo0 { assert(bit_set(v0, b)); }
                            }
                            assert forall|b: int| 0 <= b < 64 implies (#[trigger] bit_set(self.bit_iter.value, b) == (bit_set(old(self).bit_iter.value, b) && b > next as int)) by {
                                if b < next as int && b >= lo0 { assert(bit_set(v0, b) == bit_set(old(self).bit_iter.value, b)); }
                            }
                        }
                        return next;
                    }
                    proof {
                        let lo1 = next as int + 1;
                        lo = lo1;
                        assert forall|b: int| 0 <= b < 64 implies (#[trigger] bit_set(self.bit_iter.value, b) == (bit_set(old(self).bit_iter.value, b) && b >= lo1)) by { }
                        assert forall|b: int| bit_set(old(self).bit_iter.value, b) && b < lo1 implies #[trigger] old(self).tree.chunks@[b].buffer@.len() == 0 by {
                            if b >= lo0 && b != next as int { assert(bit_set(v0, b)); }
                        }
                    }
                }
                None => {
                    proof {
                        assert forall|b: int| bit_set(old(self).bit_iter.value, b) implies #[trigger] old(self).tree.chunks@[b].buffer@.len() == 0 by {
                            if b >= lo0 { assert(bit_set(v0, b)); assert(false) by { assert(v0 == 0); assert(!bit_set(0u64, b)) by { let s = b as u64; assert((0u64 >> s) & 1 == 0) by(bit_vector); } } }
                        }
                    }
                    break;
                }
            }
        }
        usize::MAX
    }

    #[inline]
    #[verifier::loop_isolation(false)]
    fn next(&mut self) -> (r: Option<V>)
        requires
            ji(old(self).tree.chunks@, old(self).tree.sg@, old(self).cids@, old(self).mask, old(self).bit_iter.value, old(self).time, old(self).i0, old(self).i1 as int, old(self).yielded@),
        ensures
            ji(final(self).tree.chunks@, final(self).tree.sg@, final(self).cids@, final(self).mask, final(self).bit_iter.value, final(self).time, final(self).i0, final(self).i1 as int, final(self).yielded@),
            final(self).mask == old(self).mask, final(self).time == old(self).time, final(self).tree.sg == old(self).tree.sg,
            match r {
                Some(v) => exists|id: int| 0 <= id < old(self).tree.sg@.items.len() && v == (#[trigger] old(self).tree.sg@.items[id]).val
                                && final(self).yielded@ == old(self).yielded@.push(id),
                None => final(self).i0 == usize::MAX && final(self).yielded@ == old(self).yielded@,
            },
    {
        while self.i0 < self.tree.chunks.len()
            invariant
                ji(self.tree.chunks@, self.tree.sg@, self.cids@, self.mask, self.bit_iter.value, self.time, self.i0, self.i1 as int, self.yielded@),
                self.mask == old(self).mask, self.time == old(self).time, self.tree.sg == old(self).tree.sg, self.yielded == old(self).yielded,
                self.i0 >= self.tree.chunks@.len() ==> self.i0 == usize::MAX,
            decreases (if self.i0 == usize::MAX { 0int } else { self.bit_iter.value as int + 1 }),
        {
            let ghost t0c = self.tree.chunks@;
            let ghost sg0 = self.tree.sg@;
            let ghost c0 = self.i0 as int;
            let chunk = self.tree.chunk_mut(self.i0);
            let mut i = self.i1;
            while i < chunk.buffer.len()
                invariant
                    0 <= c0 < t0c.len(), c0 == self.i0 as int, self.i0 != usize::MAX,
                    ji(t0c.update(c0, *chunk), sg0, self.cids@, self.mask, self.bit_iter.value, self.time, self.i0, i as int, self.yielded@),
                    self.mask == old(self).mask, self.time == old(self).time, sg0 == old(self).tree.sg@, self.yielded == old(self).yielded,
                decreases chunk.buffer@.len() - i,
            {
                let item = chunk.entity(i);

                if item.val.expiration() < self.time {
                    let ghost cs = t0c.update(c0, *chunk);
                    chunk.buffer.swap_remove(i);
                    proof {
                        lemma_scan_remove(cs, sg0, self.cids@, self.mask, self.bit_iter.value, self.time, self.i0, i as int, self.yielded@, *chunk);
                        self.cids@ = self.cids@.update(c0, swap_removed(self.cids@[c0], i as int));
                        assert(cs.update(c0, *chunk) =~= t0c.update(c0, *chunk));
                    }
                    continue
                }
                i += 1;

                // we must return same pair only once,
                let mask_int = item.mask & self.mask;
                let first_index = mask_int.trailing_zeros() as usize;

                // we will return only for first index
                if first_index == self.i0 {
                    self.i1 = i;
                    proof {
                        let cs = t0c.update(c0, *chunk);
                        lemma_scan_yield(cs, sg0, self.cids@, self.mask, self.bit_iter.value, self.time, self.i0, i as int - 1, self.yielded@);
                        self.yielded@ = self.yielded@.push(self.cids@[c0][i as int - 1]);
                    }
                    return Some(item.val);
                }
                proof {
                    let cs = t0c.update(c0, *chunk);
                    lemma_scan_skip(cs, sg0, self.cids@, self.mask, self.bit_iter.value, self.time, self.i0, i as int - 1, self.yielded@);
                }
            }
            let ghost rem0 = self.bit_iter.value;

            self.i0 = self.find_next_not_empty_chunk();
            self.i1 = 0;
            proof {
                lemma_scan_advance(self.tree.chunks@, sg0, self.cids@, self.mask, rem0, self.time, c0 as usize, self.yielded@, self.i0, self.bit_iter.value);
            }
        }

        None
    }
}
}
}
fn main() {}
