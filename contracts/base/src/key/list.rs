use crate::key::entity::Entity;
use crate::key::exp::KeyExpCollection;
use crate::{Expiration, ExpiredKey};
use std::cmp::Ordering;

pub struct KeyExpList<K, E, V> {
    pub(super) buffer: Vec<Entity<K, E, V>>,
    min_exp: E,
}

impl<K: ExpiredKey<E>, E: Expiration, V: Copy> KeyExpList<K, E, V> {
    #[inline(always)]
    pub fn new(capacity: usize) -> Self {
        Self {
            buffer: Vec::with_capacity(capacity),
            min_exp: E::max_expiration(),
        }
    }
}

impl<K: ExpiredKey<E>, E: Expiration, V: Copy> KeyExpCollection<K, E, V> for KeyExpList<K, E, V> {
    #[inline]
    fn is_empty(&self) -> bool {
        self.buffer.is_empty()
    }

    #[inline]
    fn insert(&mut self, key: K, val: V, time: E) {
        self.clear_expired(time);
        self.min_exp = self.min_exp.min(key.expiration());
        let index = self
            .buffer
            .binary_search_by_key(&key, |e| e.key)
            .unwrap_or_else(|index| index);
        self.buffer.insert(index, Entity::new(key, val));
    }

    #[inline]
    fn get_value(&mut self, time: E, key: K) -> Option<V> {
        self.clear_expired(time);
        if let Ok(index) = self.buffer.binary_search_by_key(&key, |e| e.key) {
            Some(unsafe { self.buffer.get_unchecked(index) }.val)
        } else {
            None
        }
    }

    #[inline]
    fn first_less(&mut self, time: E, default: V, key: K) -> V {
        self.clear_expired(time);
        let index = self.buffer
            .binary_search_by(|e| e.key.cmp(&key))
            .unwrap_or_else(|index| index);

        if index > 0 {
            unsafe { self.buffer.get_unchecked(index - 1) }.val
        } else {
            default
        }
    }

    #[inline]
    fn first_less_or_equal(&mut self, time: E, default: V, key: K) -> V {
        self.clear_expired(time);
        match self.buffer.binary_search_by(|e| e.key.cmp(&key)) {
            Ok(index) => unsafe { self.buffer.get_unchecked(index) }.val,
            Err(index) => {
                if index > 0 {
                    unsafe { self.buffer.get_unchecked(index - 1) }.val
                } else {
                    default
                }
            }
        }
    }

    #[inline]
    fn first_less_or_equal_by<F>(&mut self, time: E, default: V, f: F) -> V
    where
        F: Fn(K) -> Ordering,
    {
        self.clear_expired(time);
        match self.buffer.binary_search_by(|e| f(e.key)) {
            Ok(index) => unsafe { self.buffer.get_unchecked(index) }.val,
            Err(index) => {
                if index > 0 {
                    unsafe { self.buffer.get_unchecked(index - 1) }.val
                } else {
                    default
                }
            }
        }
    }

    #[inline]
    fn clear(&mut self) {
        self.min_exp = E::max_expiration();
        self.buffer.clear();
    }
}

impl<K: ExpiredKey<E>, E: Expiration, V: Copy> KeyExpList<K, E, V> {
    #[inline]
    pub(super) fn clear_expired(&mut self, time: E) {
        if self.min_exp > time {
            return;
        }
        let mut new_min_exp = E::max_expiration();
        self.buffer.retain(|s| {
            let exp = s.key.expiration();
            let keep = exp > time;
            if keep {
                new_min_exp = new_min_exp.min(exp);
            }
            keep
        });
        self.min_exp = new_min_exp;
    }
}
