use crate::seg::heap::Heap32;

pub(super) struct Layout {
    min: i64,
    max: i64,
    scale: u32,
}

impl Layout {
    #[inline]
    pub(super) fn new(start: i64, end: i64) -> Option<Self> {
        let min = start;
        let max = end;
        // the span is taken in i128: `max - min` does not fit i64 for domains of more than i64::MAX points
        let span = (max as i128 - min as i128) as u64;
        if span < Heap32::POWER as u64 {
            return None;
        }
        let p = span.ilog2() + 1;
        if p < Heap32::POWER {
            return None;
        }
        let scale = p - Heap32::POWER;

        Some(Self { min, max, scale })
    }

    #[inline]
    pub(super) fn index(&self, value: i64) -> u32 {
        ((value as i128 - self.min as i128) as u64 >> self.scale) as u32
    }

    #[inline]
    pub(super) fn count(&self) -> usize {
        let order = self.index(self.max);
        Heap32::order_to_heap_index(order) as usize + 1
    }

    #[inline]
    pub(super) fn insert_mask(&self, min: i64, max: i64) -> u64 {
        let start = self.index(min);
        let end = self.index(max);

        Heap32::range_to_place_mask(start, end)
    }

    #[inline]
    pub(super) fn intersect_mask(&self, min: i64, max: i64) -> u64 {
        let start = self.index(min);
        let end = self.index(max);

        Heap32::range_to_intersect_mask(start, end)
    }
}

#[cfg(test)]
mod tests {
    use crate::seg::layout::Layout;


    #[test]
    fn test_00() {
        let layout = Layout::new(0, 31).unwrap();
        for i in 0..31 {
            assert_eq!(layout.index(i), i as u32);
        }
    }

    #[test]
    fn test_01() {
        let layout = Layout::new(0, 63).unwrap();
        for i in 0..63 {
            assert_eq!(layout.index(i), (i / 2) as u32);
        }
    }

    #[test]
    fn test_02() {
        let layout = Layout::new(-63, 0).unwrap();
        for i in -63..0 {
            assert_eq!(layout.index(i), ((i + 63) / 2) as u32);
        }
    }

    #[test]
    fn test_03() {
        let layout = Layout::new(-10240, 15360).unwrap();
        let m0 = layout.insert_mask(-10240, 10240);
        let m1 = layout.intersect_mask(-10240, -10240);
        let inter = m0 & m1;

        assert_ne!(inter, 0);
    }
}