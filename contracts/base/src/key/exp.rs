use std::cmp::Ordering;

pub trait KeyExpCollection<K, E, V> {
    fn is_empty(&self) -> bool;
    fn insert(&mut self, key: K, val: V, time: E);
    fn get_value(&mut self, time: E, key: K) -> Option<V>;
    fn first_less(&mut self, time: E, default: V, key: K) -> V;
    fn first_less_or_equal(&mut self, time: E, default: V, key: K) -> V;
    fn first_less_or_equal_by<F>(&mut self, time: E, default: V, f: F) -> V
    where
        F: Fn(K) -> Ordering;
    fn clear(&mut self);
}