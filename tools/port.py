#!/usr/bin/env python3
"""authoring helper: port the annotated region of one /repo file (overlay A, file FA) onto a sibling file FB that is a
near-copy of the same algorithm (map/tree.rs -> set/tree.rs -> key/tree.rs).  Output is in overlay form (markers kept).
usage: port.py <overlay.vrs> <region relpath FA> <relpath FB> [sed-like annotation substitutions as python file]"""
import sys, re, importlib.util
sys.path.insert(0, '/verif/lib')
import extract

def overlay_form(ol, cur_text, unchanged):
    k = ol.kind
    if k == 'plain':
        return [cur_text]
    if k == 'drop':
        return ['//@drop: ' + cur_text.strip()]
    if k == 'was':
        if unchanged:
            return ['%s //@was: %s' % (ol.text, cur_text.strip())]
        return [cur_text, '//@@ REVIEW was-rewrite: ' + ol.text]
    if k == 'semi':
        t = cur_text.rstrip()
        return [t + '; //@+;'] if not t.endswith(';') else [t]
    if k == 'ret':
        mo = re.match(r'^(.*-> )(.*)$', cur_text)
        if mo and not mo.group(2).startswith('('):
            return ['%s(%s: %s)' % (mo.group(1), ol.extra, mo.group(2))]
        return [cur_text]
    if k == 'iter':
        mo = re.match(r'^(\s*for \w+ in )(.*)$', cur_text)
        return ['%s%s: %s' % (mo.group(1), ol.extra, mo.group(2))] if mo else [cur_text]
    if k == 'arm':
        mo = extract._ARM.match(cur_text)
        if mo:
            ind = mo.group(1)
            after = list(ol.after or [])
            body = mo.group(3) + (';' if after and not mo.group(3).endswith(';') else '')
            return (['%s%s => { //@arm' % (ind, mo.group(2))] + list(ol.extra) +
                    ['%s    %s //@arm-body' % (ind, body)] + after + ['%s}%s //@arm-close' % (ind, mo.group(4))])
        return [cur_text, '//@@ REVIEW arm lost']
    raise AssertionError(k)

def main():
    ov, fa, fb = sys.argv[1:4]
    subst = []
    if len(sys.argv) > 4:
        spec = importlib.util.spec_from_file_location('s', sys.argv[4]); m = importlib.util.module_from_spec(spec); spec.loader.exec_module(m)
        subst = m.RULES
    raw = open(ov).read().split('\n')
    a = next(i for i, l in enumerate(raw) if l.strip().startswith('//@ file ' + fa))
    b = next(i for i in range(a, len(raw)) if raw[i].strip() == '//@ end-file')
    region = extract.parse_region(raw[a + 1:b], a + 2)
    base = extract.transform(open('/verif/contracts/base/' + fa).read(), extract.Counts())
    cur = extract.transform(open('/verif/contracts/base/' + fb).read(), extract.Counts())
    missing = extract.classify(region, base)
    assert not missing, missing[:3]
    # monkeypatch derive to produce overlay form
    extract.derive = lambda ol, cur_text, unchanged, lost: overlay_form(ol, cur_text, unchanged)
    out, origin, info = extract.merge(region, base, cur, fb, 'x')
    res = []
    for t, o in zip(out, origin):
        if o[0] == 'A':
            for x, y in subst:
                t = re.sub(x, y, t)
        res.append(t)
    print('\n'.join(res))

main()
