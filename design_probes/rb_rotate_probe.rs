use vstd::prelude::*;
verus! {
mod map {
use vstd::prelude::*;
use std::cmp::Ordering;
use vstd::std_specs::cmp::*;

pub const EMPTY_REF: u32 = u32::MAX;
const NIL_INDEX: u32 = 0;

#[derive(PartialEq, Clone, Copy)]
pub enum Color { Red, Black }

pub struct Entity<K, V> { pub key: K, pub val: V }

pub struct Node<K, V> {
    pub parent: u32,
    pub left: u32,
    pub right: u32,
    pub color: Color,
    pub entity: Entity<K, V>,
}

pub struct Pool<K, V> {
    pub buffer: Vec<Node<K, V>>,
    pub unused: Vec<u32>,
}

pub ghost struct NG { pub pos: int, pub a: int, pub b: int, pub bh: int }
pub ghost struct G { pub ord: Seq<u32>, pub ng: Seq<NG> }

pub struct MapTree<K, V> {
    pub store: Pool<K, V>,
    pub root: u32,
    pub g: Ghost<G>,
}

pub open spec fn key_lt<K: Ord>(a: K, b: K) -> bool { a.cmp_spec(&b) == Ordering::Less }

pub type Buf<K, V> = Seq<Node<K, V>>;

pub open spec fn in_tree<K, V>(buf: Buf<K, V>, g: G, i: int) -> bool {
    &&& 0 <= i < buf.len()
    &&& 0 <= g.ng[i].pos < g.ord.len()
    &&& g.ord[g.ng[i].pos] as int == i
}

pub open spec fn link_in_tree<K, V>(buf: Buf<K, V>, g: G, l: u32) -> bool {
    l != EMPTY_REF && in_tree(buf, g, l as int)
}

// local structural condition of an in-tree node
pub open spec fn node_ok<K, V>(buf: Buf<K, V>, g: G, root: u32, i: int) -> bool {
    let nd = buf[i];
    let p = g.ng[i].pos;
    let a = g.ng[i].a;
    let b = g.ng[i].b;
    &&& 0 <= a <= p < b <= g.ord.len()
    &&& if a == p { nd.left == EMPTY_REF } else {
            &&& link_in_tree(buf, g, nd.left)
            &&& g.ng[nd.left as int].a == a && g.ng[nd.left as int].b == p
            &&& buf[nd.left as int].parent as int == i
        }
    &&& if p + 1 == b { nd.right == EMPTY_REF } else {
            &&& link_in_tree(buf, g, nd.right)
            &&& g.ng[nd.right as int].a == p + 1 && g.ng[nd.right as int].b == b
            &&& buf[nd.right as int].parent as int == i
        }
    &&& if nd.parent == EMPTY_REF { i == root as int } else {
            &&& i != root as int
            &&& link_in_tree(buf, g, nd.parent)
            &&& (buf[nd.parent as int].left as int == i || buf[nd.parent as int].right as int == i)
        }
}

#[verifier::opaque]
pub open spec fn sorted<K: Ord, V>(buf: Buf<K, V>, g: G) -> bool {
    forall|q1: int, q2: int| 0 <= q1 < q2 < g.ord.len() && g.ord[q1] != 0u32 && g.ord[q2] != 0u32
        ==> key_lt(#[trigger] buf[g.ord[q1] as int].entity.key, #[trigger] buf[g.ord[q2] as int].entity.key)
}

#[verifier::opaque]
pub open spec fn sinv<K: Ord, V>(buf: Buf<K, V>, g: G, root: u32) -> bool {
    &&& g.ng.len() == buf.len()
    &&& 1 <= buf.len() < EMPTY_REF
    &&& forall|q: int| 0 <= q < g.ord.len() ==> 0 <= (#[trigger] g.ord[q]) as int && (g.ord[q] as int) < buf.len() && g.ng[g.ord[q] as int].pos == q
    &&& forall|i: int| in_tree(buf, g, i) ==> #[trigger] node_ok(buf, g, root, i)
    &&& if g.ord.len() == 0 { root == EMPTY_REF } else {
            &&& link_in_tree(buf, g, root)
            &&& g.ng[root as int].a == 0 && g.ng[root as int].b == g.ord.len()
            &&& buf[root as int].parent == EMPTY_REF
        }
    &&& sorted(buf, g)
}

pub open spec fn same_payload<K, V>(b1: Buf<K, V>, b0: Buf<K, V>) -> bool {
    &&& b1.len() == b0.len()
    &&& forall|i: int| 0 <= i < b1.len() ==> (#[trigger] b1[i]).color == b0[i].color && b1[i].entity == b0[i].entity
}

// exact effect of rotate_left(x) on links, root and ghost ranges
pub open spec fn rot_left_rel<K, V>(b1: Buf<K, V>, g1: G, r1: u32, b0: Buf<K, V>, g0: G, r0: u32, x: int) -> bool {
    let y = b0[x].right;
    let c = b0[y as int].left;
    let p = b0[x].parent;
    &&& b1.len() == b0.len()
    &&& b1[x] == (Node { parent: y, right: c, ..b0[x] })
    &&& b1[y as int] == (Node { parent: p, left: x as u32, ..b0[y as int] })
    &&& c != EMPTY_REF ==> b1[c as int] == (Node { parent: x as u32, ..b0[c as int] })
    &&& p != EMPTY_REF ==> b1[p as int] == (if b0[p as int].left as int == x { Node { left: y, ..b0[p as int] } } else { Node { right: y, ..b0[p as int] } })
    &&& forall|i: int| 0 <= i < b1.len() && i != x && i != y as int && i != c as int && i != p as int ==> #[trigger] b1[i] == b0[i]
    &&& r1 == (if p == EMPTY_REF { y } else { r0 })
    &&& g1.ord == g0.ord
    &&& g1.ng == g0.ng
            .update(x, NG { b: g0.ng[y as int].pos, ..g0.ng[x] })
            .update(y as int, NG { a: g0.ng[x].a, ..g0.ng[y as int] })
}

pub proof fn lemma_links<K: Ord, V>(buf: Buf<K, V>, g: G, root: u32, i: int)
    requires sinv(buf, g, root), in_tree(buf, g, i),
    ensures
        node_ok(buf, g, root, i),
        buf[i].left == EMPTY_REF || link_in_tree(buf, g, buf[i].left),
        buf[i].right == EMPTY_REF || link_in_tree(buf, g, buf[i].right),
        buf[i].parent == EMPTY_REF || link_in_tree(buf, g, buf[i].parent),
        buf.len() < EMPTY_REF,
{
    reveal(sinv);
    assert(node_ok(buf, g, root, i));
}

pub proof fn lemma_rot_left<K: Ord, V>(b1: Buf<K, V>, g1: G, r1: u32, b0: Buf<K, V>, g0: G, r0: u32, x: int)
    requires
        sinv(b0, g0, r0), in_tree(b0, g0, x), b0[x].right != EMPTY_REF,
        rot_left_rel(b1, g1, r1, b0, g0, r0, x),
    ensures
        sinv(b1, g1, r1),
        same_payload(b1, b0),
{
    reveal(sinv);
    let y = b0[x].right;
    let c = b0[y as int].left;
    let p = b0[x].parent;
    assert(node_ok(b0, g0, r0, x));
    assert(node_ok(b0, g0, r0, y as int));
    if c != EMPTY_REF { assert(node_ok(b0, g0, r0, c as int)); }
    if p != EMPTY_REF { assert(node_ok(b0, g0, r0, p as int)); }
    assert(same_payload(b1, b0));
    assert(sorted(b1, g1)) by { reveal(sorted); }
    assert forall|i: int| in_tree(b1, g1, i) implies #[trigger] node_ok(b1, g1, r1, i) by {
        assert(in_tree(b0, g0, i));
        assert(node_ok(b0, g0, r0, i));
    }
}

impl<K: Copy + Ord + Default, V: Clone + Default> MapTree<K, V> {
    pub open spec fn buf(&self) -> Buf<K, V> { self.store.buffer@ }

    #[inline(always)]
    pub(super) fn node(&self, index: u32) -> (r: &Node<K, V>)
        requires (index as int) < self.store.buffer@.len(),
        ensures *r == self.store.buffer@[index as int],
    {
        &self.store.buffer[index as usize]
    }

    #[inline(always)]
    pub(super) fn node_mut(&mut self, index: u32) -> (r: &mut Node<K, V>)
        requires (index as int) < old(self).store.buffer@.len(),
        ensures
            *r == old(self).store.buffer@[index as int],
            final(self).store.buffer@ == old(self).store.buffer@.update(index as int, *final(r)),
            final(self).store.unused == old(self).store.unused,
            final(self).root == old(self).root,
            final(self).g == old(self).g,
    {
        &mut self.store.buffer[index as usize]
    }

    fn rotate_left(&mut self, index: u32)
        requires
            sinv(old(self).store.buffer@, old(self).g@, old(self).root),
            in_tree(old(self).store.buffer@, old(self).g@, index as int),
            old(self).store.buffer@[index as int].right != EMPTY_REF,
        ensures
            sinv(final(self).store.buffer@, final(self).g@, final(self).root),
            same_payload(final(self).store.buffer@, old(self).store.buffer@),
            final(self).store.unused == old(self).store.unused,
            rot_left_rel(final(self).store.buffer@, final(self).g@, final(self).root, old(self).store.buffer@, old(self).g@, old(self).root, index as int),
    {
        proof {
            let b0 = self.store.buffer@; let g0 = self.g@; let r0 = self.root;
            lemma_links(b0, g0, r0, index as int);
            let y = b0[index as int].right; let c = b0[y as int].left; let p = b0[index as int].parent;
            lemma_links(b0, g0, r0, y as int);
            if c != EMPTY_REF { lemma_links(b0, g0, r0, c as int); }
            if p != EMPTY_REF { lemma_links(b0, g0, r0, p as int); }
        }
        let n = self.node(index);
        let p = n.parent;
        let rt_index = n.right;

        let rt_node = self.node_mut(rt_index);
        let rt_left = rt_node.left;
        rt_node.left = index;

        if rt_left != EMPTY_REF {
            self.node_mut(rt_left).parent = index;
        }
        let node = self.node_mut(index);
        node.right = rt_left;
        node.parent = rt_index;

        self.replace_parents_child(p, index, rt_index);
        proof {
            let b0 = old(self).store.buffer@; let g0 = old(self).g@; let r0 = old(self).root;
            let ng1 = g0.ng.update(index as int, NG { b: g0.ng[rt_index as int].pos, ..g0.ng[index as int] })
                         .update(rt_index as int, NG { a: g0.ng[index as int].a, ..g0.ng[rt_index as int] });
            self.g@ = G { ord: g0.ord, ng: ng1 };
            lemma_rot_left(self.store.buffer@, self.g@, self.root, b0, g0, r0, index as int);
        }
    }

    #[inline]
    fn replace_parents_child(&mut self, parent: u32, old_child: u32, new_child: u32)
        requires
            (new_child as int) < old(self).store.buffer@.len(),
            parent == EMPTY_REF || (parent as int) < old(self).store.buffer@.len(),
            parent != new_child,
        ensures
            final(self).g == old(self).g,
            final(self).store.unused == old(self).store.unused,
            final(self).store.buffer@.len() == old(self).store.buffer@.len(),
            final(self).root == (if parent == EMPTY_REF { new_child } else { old(self).root }),
            forall|i: int| 0 <= i < final(self).store.buffer@.len() && i != new_child as int && i != parent as int ==> #[trigger] final(self).store.buffer@[i] == old(self).store.buffer@[i],
            final(self).store.buffer@[new_child as int] == (Node { parent: parent, ..old(self).store.buffer@[new_child as int] }),
            parent != EMPTY_REF ==> final(self).store.buffer@[parent as int] == (if old(self).store.buffer@[parent as int].left == old_child {
                    Node { left: new_child, ..old(self).store.buffer@[parent as int] }
                } else {
                    Node { right: new_child, ..old(self).store.buffer@[parent as int] }
                }),
    {
        self.node_mut(new_child).parent = parent;
        if parent == EMPTY_REF {
            self.root = new_child;
            return;
        }

        let p = self.node_mut(parent);
        // debug_assert dropped

        if p.left == old_child {
            p.left = new_child;
        } else {
            p.right = new_child;
        }
    }
}
}
} // verus!
fn main() {}
