#!/bin/bash
# quick feedback: run the seeded change's own property check (and optional others) against a scratch copy
cd /verif
d=$1; shift; name=$(basename $d); pid=${name%%_*}; R=/var/tmp/seedrepos_own/$name
rm -rf $R; mkdir -p $R; cp -r /repo/src /repo/Cargo.toml $R/
(cd $R && patch -p1 -s < /verif/$d/patch.diff) || { echo "$name patch failed"; exit 2; }
for id in $pid "$@"; do
  out=$(bin/check $id --tier quick --repo $R 2>&1 | grep -v "^WARNING" | tail -3 | tr '\n' '|')
  echo "$name $id :: ${out:0:900}"
done
rm -rf $R
