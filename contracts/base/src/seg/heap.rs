use crate::seg::bit::BitOp;

pub(super) struct Heap32 {}

impl Heap32 {

    pub(super) const SUB_CAPACITY: u32 = 32 - 1;
    pub(super) const POWER: u32 = 32_u32.ilog2();

    #[inline]
    pub(super) fn range_to_intersect_mask(start: u32, end: u32) -> u64 {
        debug_assert!(start < 32);
        debug_assert!(end < 32);

        let mut w = Self::range_to_fill_mask(start, end);

        let mut shift = 32;
        for _ in 0..6 {
            let mut lt = shift - 1;
            shift >>= 1; // 16
            for _ in 0..shift {
                let rt = lt + 1;
                let pt = lt >> 1;

                let lt_bit = (w >> lt) & 1;
                let rt_bit = (w >> rt) & 1;
                let pt_bit = lt_bit | rt_bit;

                w |= pt_bit << pt;

                lt += 2;
            }
        }

        w
    }

    #[inline]
    pub(super) fn range_to_place_mask(start: u32, end: u32) -> u64 {
        debug_assert!(start < 32);
        debug_assert!(end < 32);

        if end - start == 31 {
            return 1
        }

        let mut w = Self::range_to_fill_mask(start, end);

        let mut m: u64 = 0;
        let mut shift = 32;
        for _ in 0..6 {
            let mut lt = shift - 1;
            shift >>= 1; // 16

            for _ in 0..shift {
                let rt = lt + 1;
                let pt = lt >> 1;

                let lt_bit = (w >> lt) & 1;
                let rt_bit = (w >> rt) & 1;
                let pt_bit = lt_bit & rt_bit;

                w |= pt_bit << pt;
                m |= (lt_bit ^ pt_bit) << lt;
                m |= (rt_bit ^ pt_bit) << rt;

                lt += 2;
            }
        }

        m
    }

    #[inline]
    fn range_to_fill_mask(start: u32, end: u32) -> u64 {
        let i0 = Self::order_to_heap_index(start);
        let i1 = Self::order_to_heap_index(end);
        u64::fill(i0, i1)
    }

    #[inline]
    pub(super) fn order_to_heap_index(order: u32) -> u32 {
        order + Self::SUB_CAPACITY
    }
}


pub(super) struct BitIter {
    value: u64,
}

impl BitIter {
    #[inline]
    pub(super) fn new(value: u64) -> Self {
        Self { value }
    }
}

impl Iterator for BitIter {
    type Item = usize;

    #[inline]
    fn next(&mut self) -> Option<Self::Item> {
        if self.value == 0 {
            return None;
        }
        let pos = self.value.trailing_zeros() as usize;
        self.value &= self.value - 1;
        Some(pos)
    }
}

#[cfg(test)]
mod tests {
    use crate::seg::heap::{BitIter, Heap32};

    #[test]
    fn test_00() {
        let m = Heap32::range_to_place_mask(0, 31);
        let indices: Vec<_> = BitIter::new(m).collect();
        assert_eq!(indices, vec![0]);
    }

    #[test]
    fn test_01() {
        let m = Heap32::range_to_place_mask(0, 30);
        let indices: Vec<_> = BitIter::new(m).collect();
        assert_eq!(indices, vec![1, 5, 13, 29, 61]);
    }

    #[test]
    fn test_02() {
        let m = Heap32::range_to_place_mask(30, 31);
        let indices: Vec<_> = BitIter::new(m).collect();
        assert_eq!(indices, vec![30]);
    }

    #[test]
    fn test_03() {
        let m = Heap32::range_to_place_mask(29, 31);
        let mut indices: Vec<_> = BitIter::new(m).collect();
        indices.sort_unstable();
        assert_eq!(indices, vec![30, 60]);
    }

    #[test]
    fn test_04() {
        let m = Heap32::range_to_place_mask(15, 16);
        let mut indices: Vec<_> = BitIter::new(m).collect();
        indices.sort_unstable();
        assert_eq!(indices, vec![46, 47]);
    }

    #[test]
    fn test_05() {
        let m = Heap32::range_to_place_mask(0, 12);
        let mut indices: Vec<_> = BitIter::new(m).collect();
        indices.sort_unstable();
        assert_eq!(indices, vec![3, 9, 43]);
    }

    #[test]
    fn test_06() {
        let m = Heap32::range_to_intersect_mask(0, 0);
        let mut indices: Vec<_> = BitIter::new(m).collect();
        indices.sort_unstable();
        assert_eq!(indices, vec![0, 1, 3, 7, 15, 31]);
    }

    #[test]
    fn test_07() {
        let m = Heap32::range_to_intersect_mask(1, 1);
        let mut indices: Vec<_> = BitIter::new(m).collect();
        indices.sort_unstable();
        assert_eq!(indices, vec![0, 1, 3, 7, 15, 32]);
    }

    #[test]
    fn test_08() {
        let m = Heap32::range_to_intersect_mask(0, 1);
        let mut indices: Vec<_> = BitIter::new(m).collect();
        indices.sort_unstable();
        assert_eq!(indices, vec![0, 1, 3, 7, 15, 31, 32]);
    }

    #[test]
    fn test_09() {
        let m = Heap32::range_to_intersect_mask(0, 31);
        let mut indices: Vec<_> = BitIter::new(m).collect();
        indices.sort_unstable();
        let template: Vec<_> = (0..63).collect();
        assert_eq!(indices, template);
    }

}