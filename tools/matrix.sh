#!/bin/bash
# runs every claimed check against scratch copies of /repo with each seeded change applied (never touches /repo);
# writes seeded/<name>/matrix.txt : one line per property: id verdict
cd /verif
IDS=$(python3 -c "import json; print(' '.join(c['property_id'] for c in json.load(open('MANIFEST.json'))['checks']))")
run_one() {
  d=$1; name=$(basename $d); R=/var/tmp/seedrepos/$name
  rm -rf $R; mkdir -p $R; cp -r /repo/src /repo/Cargo.toml $R/; [ -f /repo/Cargo.lock ] && cp /repo/Cargo.lock $R/
  (cd $R && patch -p1 -s < /verif/$d/patch.diff) || { echo "patch failed" > $d/matrix.txt; return; }
  : > $d/matrix.txt.tmp
  for id in $IDS; do
    out=$(bin/check $id --tier quick --repo $R 2>&1 | grep -v "^WARNING")
    v=$(echo "$out" | grep -o "^VIOLATION\|^OK\|^INCONCLUSIVE" | head -1)
    tail=$(echo "$out" | grep "^VIOLATION" | grep -o "no-failing-input-found" | head -1)
    echo "$id ${v:-ERROR} $tail" >> $d/matrix.txt.tmp
  done
  mv $d/matrix.txt.tmp $d/matrix.txt
  rm -rf $R
}
export -f run_one; export IDS
ls -d seeded/*_agent* | xargs -P 2 -I{} bash -c 'run_one {}'
echo MATRIX-DONE
