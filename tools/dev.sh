#!/bin/bash
# authoring helper: extract unit $1 from /repo (or $REPO) and run verus on it
U=$1; shift
mkdir -p /var/tmp/vw
python3 /verif/lib/extract.py /verif/contracts/$U.vrs /verif/contracts/base ${REPO:-/repo} /var/tmp/vw/$U.rs > /var/tmp/vw/$U.extract.json || { tail -5 /var/tmp/vw/$U.extract.json; exit 2; }
cd /var/tmp/vw && verus $U.rs --num-threads 16 "$@" 2>&1 | grep -v "^note: automatically chose\|^\s*$" 
