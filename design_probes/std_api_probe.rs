#![feature(allocator_api)]
use vstd::prelude::*;
verus! {
mod m {
use vstd::prelude::*;
use std::cmp::Ordering;


pub assume_specification<T, A: core::alloc::Allocator>[ Vec::<T, A>::capacity ](v: &Vec<T, A>) -> (r: usize)
    ensures r >= v@.len();

pub assume_specification[ usize::ilog2 ](x: usize) -> (r: u32)
    requires x > 0,
    ensures r < 64, (1usize << r) <= x, r == 63 || x < (1usize << ((r + 1) as u32));

pub assume_specification<'a, T, F: FnMut(&'a T) -> Ordering>[ <[T]>::binary_search_by ](s: &'a [T], f: F) -> (r: Result<usize, usize>)
    ensures match r { Ok(i) => i < s@.len(), Err(i) => i <= s@.len() };

pub assume_specification<'a, T, B: Ord, F: FnMut(&'a T) -> B>[ <[T]>::binary_search_by_key ](s: &'a [T], b: &B, f: F) -> (r: Result<usize, usize>)
    ensures match r { Ok(i) => i < s@.len(), Err(i) => i <= s@.len() };

pub assume_specification<T, A: core::alloc::Allocator, F: FnMut(&T) -> bool>[ Vec::<T, A>::retain ](v: &mut Vec<T, A>, f: F)
    ensures final(v)@.len() <= old(v)@.len();

pub assume_specification<T, E, F: FnOnce(E) -> T>[ Result::<T, E>::unwrap_or_else ](r: Result<T, E>, f: F) -> (o: T);

#[derive(Clone, Copy)]
pub struct E { pub key: u64, pub val: u64 }

fn a1(capacity: usize) -> usize { capacity.max(8) }
fn a2(capacity: usize) -> Vec<u32> { Vec::with_capacity(capacity) }
fn a3(v: &mut Vec<u32>, n: usize) { v.reserve(n); }
fn a4(v: &mut Vec<u32>, n: usize) { v.resize(n, 0u32); }
fn a6(v: &Vec<u32>) -> usize { v.capacity() }
fn a7(v: &mut Vec<u32>) -> u32 requires old(v).len() > 0 { v.pop().unwrap() }
fn a8(v: &Vec<E>, key: u64) -> usize { v.binary_search_by_key(&key, |e| e.key).unwrap_or_else(|index| index) }
fn a9(v: &mut Vec<E>, i: usize, e: E) requires i <= old(v).len() { v.insert(i, e); }
fn a10(v: &mut Vec<E>, i: usize) requires i < old(v).len() { v.remove(i); }
fn a11(v: &mut Vec<E>, t: u64) { v.retain(|s| s.val > t); }
fn a12(v: &mut Vec<E>) { v.clear(); }
fn a13(v: &Vec<E>) -> Vec<u64> { v.iter().map(|e| e.val).collect() }
fn a14(c: usize) -> Vec<Vec<E>> { vec![Vec::new(); c] }
fn a15(x: usize) -> u32 requires x > 0 { x.ilog2() }
fn a16(x: u64) -> u32 { x.trailing_zeros() }
fn a17(v: &mut Vec<E>, i: usize) requires i < old(v).len() { v.swap_remove(i); }
fn a18(v: &mut Vec<Vec<E>>) { for c in v.iter_mut() { c.clear(); } }
fn a19<R>(r: R) -> i64 where i64: From<R> { r.into() }
fn a20(v: &Vec<E>, key: u64) -> bool { match v.binary_search_by(|e| e.key.cmp(&key)) { Ok(_) => true, Err(_) => false } }
fn a21(a: u64, b: u64) -> u64 { a.min(b) }
fn a22(x: u64, s: u32) -> u64 requires s < 64 { (x >> s) & 1 }
fn a23(x: i64, s: u32) -> u32 requires s < 64, x >= 0 { (x >> s) as u32 }
fn a24(x: u64) -> u64 requires x > 0 { x & (x - 1) }
}
}
fn main() {}
