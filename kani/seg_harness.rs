// Kani harnesses for the bit-level code of the segment tree (injected as `seg::verif_kani` into a scratch copy of /repo,
// so that it can call the pub(super) functions of heap.rs / layout.rs / bit.rs directly).  Every harness ranges over the
// FULL input domain with symbolic inputs and every loop is fully unwound (unwinding assertions on): complete proofs.
use crate::seg::heap::{BitIter, Heap32};
use crate::seg::layout::Layout;

fn overlap(a: u32, b: u32, c: u32, d: u32) -> bool {
    !(b < c || d < a)
}

fn any_range() -> (u32, u32) {
    let a: u32 = kani::any();
    let b: u32 = kani::any();
    kani::assume(a <= b && b < 32);
    (a, b)
}

// C15: the places a value over [a,b] is stored at and the places a query over [c,d] visits meet iff the ranges overlap
#[kani::proof]
#[kani::unwind(33)]
fn c15_masks_meet_iff_overlap() {
    let (a, b) = any_range();
    let (c, d) = any_range();
    let place = Heap32::range_to_place_mask(a, b);
    let visit = Heap32::range_to_intersect_mask(c, d);
    assert_eq!((place & visit) != 0, overlap(a, b, c, d));
    // reachability (vacuity guard): both outcomes occur
    kani::cover!(overlap(a, b, c, d));
    kani::cover!(!overlap(a, b, c, d));
}

// C15: at most 8 copies per insert, at least one; no mask uses bit 63; no mask bit lies beyond the last leaf of its range
// (place/visit bit i set => i <= heap index of the range's upper bucket) -- the fact that makes every place backed by storage
#[kani::proof]
#[kani::unwind(33)]
fn c15_place_mask_shape() {
    let (a, b) = any_range();
    let place = Heap32::range_to_place_mask(a, b);
    assert!(place != 0);
    assert!(place.count_ones() <= 8);
    assert!(place >> 63 == 0);
    let top = Heap32::order_to_heap_index(b);
    assert!(top <= 62);
    assert!(top == 62 || (place >> (top + 1)) == 0);
    kani::cover!(place.count_ones() == 8);
}

#[kani::proof]
#[kani::unwind(33)]
fn c15_visit_mask_shape() {
    let (c, d) = any_range();
    let visit = Heap32::range_to_intersect_mask(c, d);
    assert!(visit != 0);
    assert!(visit >> 63 == 0);
    let top = Heap32::order_to_heap_index(d);
    assert!(top == 62 || (visit >> (top + 1)) == 0);
}

// C15: the stored-at places tile [a,b] exactly: every bucket of [a,b] lies under exactly one of them, no bucket outside does
#[kani::proof]
#[kani::unwind(33)]
fn c15_place_mask_tiles_range() {
    let (a, b) = any_range();
    let leaf: u32 = kani::any();
    kani::assume(leaf < 32);
    let place = Heap32::range_to_place_mask(a, b);
    let mut node = Heap32::order_to_heap_index(leaf);
    let mut on_path: u32 = ((place >> node) & 1) as u32;
    let mut k = 0;
    while k < 5 {
        node = (node - 1) >> 1;
        on_path += ((place >> node) & 1) as u32;
        k += 1;
    }
    assert!(node == 0);
    assert_eq!(on_path, if a <= leaf && leaf <= b { 1 } else { 0 });
}

// C15 / C03: BitIter yields the set bits in ascending order, each once, and terminates
#[kani::proof]
#[kani::unwind(66)]
fn c15_bit_iter_ascending() {
    let v: u64 = kani::any();
    let mut it = BitIter::new(v);
    let mut seen: u64 = 0;
    let mut last: i32 = -1;
    let mut steps = 0;
    while let Some(i) = it.next() {
        assert!(i < 64);
        assert!((i as i32) > last);
        assert!((v >> i) & 1 == 1);
        seen |= 1u64 << i;
        last = i as i32;
        steps += 1;
        assert!(steps <= 64);
    }
    assert_eq!(seen, v);
}

// C14: construction succeeds iff the domain has more than 16 points; the coordinate-to-bucket map is monotone, sends lo to
// bucket 0 and hi to a bucket in 16..32, uses the smallest power-of-two bucket width for which 32 buckets cover the domain,
// and the storage is sized to the bucket of hi
#[kani::proof]
fn c14_layout() {
    let lo: i64 = kani::any();
    let hi: i64 = kani::any();
    kani::assume(lo <= hi);
    // every i64 domain: the number of points may need 65 bits
    let len: u128 = ((hi as i128) - (lo as i128) + 1) as u128;
    match Layout::new(lo, hi) {
        None => {
            assert!(len <= 16);
            kani::cover!(len == 16);
        }
        Some(layout) => {
            assert!(len > 16);
            let scale = layout.scale_for_verif();
            kani::cover!(scale == 0);
            kani::cover!(scale > 30);
            kani::cover!(scale == 59);
            kani::cover!(lo < 0 && hi > 0);
            assert!(scale <= 59);
            // 32 buckets of width 2^scale cover the domain, and no smaller power of two does
            assert!((32u128 << scale) >= len);
            assert!(scale == 0 || (16u128 << scale) < len);
            assert_eq!(layout.index(lo), 0);
            let top = layout.index(hi);
            assert!(top < 32 && top >= 16);
            assert_eq!(layout.count(), top as usize + 32);
            let x: i64 = kani::any();
            let y: i64 = kani::any();
            kani::assume(lo <= x && x <= y && y <= hi);
            let ix = layout.index(x);
            let iy = layout.index(y);
            assert!(ix <= iy && iy <= top);
            assert_eq!(ix as u128, (((x as i128) - (lo as i128)) as u128) >> scale);
        }
    }
}

// C14: every place an in-domain range can be stored at or queried from is backed by storage
#[kani::proof]
#[kani::unwind(33)]
fn c14_masks_backed_by_storage() {
    let lo: i64 = kani::any();
    let hi: i64 = kani::any();
    kani::assume(lo <= hi);
    if let Some(layout) = Layout::new(lo, hi) {
        let x: i64 = kani::any();
        let y: i64 = kani::any();
        kani::assume(lo <= x && x <= y && y <= hi);
        let count = layout.count();
        assert!(count <= 63);
        kani::cover!(count == 63);
        kani::cover!(count < 63);
        let m1 = layout.insert_mask(x, y);
        let m2 = layout.intersect_mask(x, y);
        assert!(count == 63 || (m1 >> count) == 0);
        assert!(count == 63 || (m2 >> count) == 0);
    }
}
