use std::marker::PhantomData;
use crate::{Expiration, ExpiredKey};

#[derive(Clone, Copy)]
pub(super) struct Entity<K, E, V> {
    pub(super) key: K,
    pub(super) val: V,
    phantom_data: PhantomData<E>
}

impl<K: ExpiredKey<E>, E: Expiration, V: Copy> Entity<K, E, V> {
    #[inline]
    pub(super) fn new(key: K, val: V) -> Self {
        Self { key, val, phantom_data: Default::default() }
    }
}