use crate::seg::chunk::Chunk;
use crate::seg::entity::Entity;
use crate::seg::exp::{SegExpCollection, SegRange};
use crate::seg::heap::BitIter;
use crate::{Expiration, ExpiredVal};
use std::marker::PhantomData;
use crate::seg::layout::Layout;

pub struct SegExpTree<R, E, V> {
    layout: Layout,
    chunks: Vec<Chunk<E, V>>,
    phantom_data: PhantomData<R>,
}

impl<R, E: Expiration, V: ExpiredVal<E>> SegExpTree<R, E, V>
where
    i64: From<R>,
{
    #[inline]
    pub fn new(range: SegRange<R>) -> Option<Self> {
        let end: i64 = range.max.into();
        let start: i64 = range.min.into();
        let layout = Layout::new(start, end)?;
        let count = layout.count();

        Some(Self {
            layout,
            chunks: vec![Chunk::new(); count],
            phantom_data: Default::default(),
        })
    }

    #[inline]
    fn chunk(&self, index: usize) -> &Chunk<E, V> {
        unsafe { self.chunks.get_unchecked(index) }
    }

    #[inline]
    fn chunk_mut(&mut self, index: usize) -> &mut Chunk<E, V> {
        unsafe { self.chunks.get_unchecked_mut(index) }
    }
}

impl<R, E: Expiration, V: ExpiredVal<E>> SegExpCollection<R, E, V> for SegExpTree<R, E, V>
where
    i64: From<R>,
{

    #[inline]
    fn insert_by_range(&mut self, range: SegRange<R>, val: V) {
        let mask = self.layout.insert_mask(range.min.into(), range.max.into());
        let entity = Entity::new(val, mask);
        for index in BitIter::new(mask) {
            self.chunk_mut(index).insert(entity);
        }
    }

    type Iter<'a>
        = SegExpTreeIterator<'a, R, E, V>
    where
        R: 'a,
        E: 'a,
        V: 'a;

    #[inline]
    fn iter_by_range(&mut self, range: SegRange<R>, time: E) -> SegExpTreeIterator<R, E, V> {
        let mask = self.layout.intersect_mask(range.min.into(), range.max.into());
        SegExpTreeIterator::new(mask, time, self)
    }

    #[inline]
    fn clear(&mut self) {
        for chunk in self.chunks.iter_mut() {
            chunk.clear();
        }
    }
}

pub struct SegExpTreeIterator<'a, R, E, V> {
    tree: &'a mut SegExpTree<R, E, V>,
    time: E,
    i0: usize,
    i1: usize,
    mask: u64,
    bit_iter: BitIter,
}

impl<'a, R, E: Expiration, V: ExpiredVal<E>> SegExpTreeIterator<'a, R, E, V>
where
    i64: From<R>,
{
    #[inline]
    fn new(mask: u64, time: E, tree: &'a mut SegExpTree<R, E, V>) -> Self {
        let mut iter = SegExpTreeIterator {
            tree,
            time,
            i0: 0,
            i1: 0,
            mask,
            bit_iter: BitIter::new(mask),
        };

        // Find the first valid chunk
        iter.i0 = iter.find_next_not_empty_chunk();

        iter
    }

    #[inline]
    fn find_next_not_empty_chunk(&mut self) -> usize {
        for next in &mut self.bit_iter {
            if !self.tree.chunk(next).is_empty() {
                return next;
            }
        }
        usize::MAX
    }

}

impl<R, E: Expiration, V: ExpiredVal<E>> Iterator for SegExpTreeIterator<'_, R, E, V>
where
    i64: From<R>,
{
    type Item = V;

    #[inline]
    fn next(&mut self) -> Option<Self::Item> {
        while self.i0 < self.tree.chunks.len() {
            let chunk = self.tree.chunk_mut(self.i0);
            let mut i = self.i1;
            while i < chunk.buffer.len() {
                let item = chunk.entity(i);

                if item.val.expiration() < self.time {
                    chunk.buffer.swap_remove(i);
                    continue
                }
                i += 1;

                // we must return same pair only once,
                let mask_int = item.mask & self.mask;
                let first_index = mask_int.trailing_zeros() as usize;

                // we will return only for first index
                if first_index == self.i0 {
                    self.i1 = i;
                    return Some(item.val);
                }
            }

            self.i0 = self.find_next_not_empty_chunk();
            self.i1 = 0;
        }

        None
    }
}

#[cfg(test)]
mod tests {
    use crate::ExpiredVal;
    use crate::seg::exp::{SegExpCollection, SegRange};
    use crate::seg::tree::SegExpTree;

    #[derive(Clone, Copy)]
    struct Point {
        x: i32,
        y: i32,
    }

    #[derive(Clone, Copy)]
    struct Segment {
        a: Point,
        b: Point,
    }

    impl Segment {
        fn new(ax: i32, ay: i32, bx: i32, by: i32) -> Self {
            Self {
                a: Point { x: ax, y: ay },
                b: Point { x: bx, y: by },
            }
        }

        fn y_range(&self) -> SegRange<i32> {
            if self.a.y < self.b.y {
                SegRange {
                    min: self.a.y,
                    max: self.b.y,
                }
            } else {
                SegRange {
                    min: self.b.y,
                    max: self.a.y,
                }
            }
        }
    }

    impl ExpiredVal<i32> for Segment {
        fn expiration(&self) -> i32 {
            self.a.x.max(self.b.x)
        }
    }

    #[test]
    fn test_00() {
        let mut tree = SegExpTree::new(SegRange { min: 0, max: 128 }).unwrap();
        let s = Segment::new(0, 2, 2, 100);
        tree.insert_by_range(s.y_range(), s);
        tree.clear();
        for chunk in tree.chunks {
            assert!(chunk.is_empty());
        }
    }

    #[test]
    fn test_01() {
        let mut tree = SegExpTree::new(SegRange { min: 0, max: 128 }).unwrap();
        let s = Segment::new(0, 2, 2, 100);
        tree.insert_by_range(s.y_range(), s);
        let mut result = Vec::new();
        for val in tree.iter_by_range(SegRange { min: 0, max: 100 }, 0) {
            result.push(val);
        }
        assert_eq!(result.len(), 1);
    }

    #[test]
    fn test_02() {
        let mut tree = SegExpTree::new(SegRange { min: 0, max: 128 }).unwrap();
        let s0 = Segment::new(0, 10, 2, 100);
        let s1 = Segment::new(0, 20, 2, 80);

        tree.insert_by_range(s0.y_range(), s0);
        tree.insert_by_range(s1.y_range(), s1);

        let mut result = Vec::new();
        for val in tree.iter_by_range(SegRange { min: 15, max: 90 }, 0) {
            result.push(val);
        }
        assert_eq!(result.len(), 2);
    }

    #[test]
    fn test_03() {
        let mut tree = SegExpTree::new(SegRange { min: 0, max: 128 }).unwrap();
        let s0 = Segment::new(0, 10, 2, 20);
        let s1 = Segment::new(0, 80, 2, 100);

        tree.insert_by_range(s0.y_range(), s0);
        tree.insert_by_range(s1.y_range(), s1);

        let mut result = Vec::new();
        for val in tree.iter_by_range(SegRange { min: 40, max: 60 }, 0) {
            result.push(val);
        }
        assert_eq!(result.len(), 0);
    }

    #[test]
    fn test_04() {
        let mut tree = SegExpTree::new(SegRange { min: -10240, max: 15360 }).unwrap();
        let s0 = Segment::new(0, -10240, 10, 10240);
        let s1 = Segment::new(0, -10240, 10240, -10240);

        let m0 = tree.layout.intersect_mask(s0.y_range().min.into(), s0.y_range().max.into());
        let m1 = tree.layout.intersect_mask(s1.y_range().min.into(), s1.y_range().max.into());

        assert_ne!(m0 & m1, 0);

        tree.insert_by_range(s0.y_range(), s0);

        let mut result = Vec::new();
        for val in tree.iter_by_range(s1.y_range(), 0) {
            result.push(val);
        }
        assert_eq!(result.len(), 1);
    }
}
