#![feature(allocator_api)]
use vstd::prelude::*;
verus! {
mod map {
use vstd::prelude::*;

pub struct Node { pub parent: u32, pub left: u32, pub right: u32, pub key: u64 }
impl Clone for Node {
    #[verifier::external_body]
    fn clone(&self) -> (r: Self) ensures r == *self { Node { parent: self.parent, left: self.left, right: self.right, key: self.key } }
}
impl Default for Node {
    #[verifier::external_body]
    fn default() -> Self { Node { parent: 0, left: 0, right: 0, key: 0 } }
}

pub struct Pool {
    pub buffer: Vec<Node>,
    pub unused: Vec<u32>,
}

pub uninterp spec fn cap_of(v: Vec<u32>) -> nat;

// stands for `self.unused.capacity()`; std: capacity() >= len(); this crate creates `unused` with_capacity(max(8, hint))
// and never shrinks it, so the capacity stays >= 8
#[verifier::external_body]
pub fn unused_capacity(v: &Vec<u32>) -> (r: usize)
    ensures r >= v@.len(), r >= 8,
{
    v.capacity()
}

// stands for `v.extend((lo..hi).rev())`
#[verifier::external_body]
pub fn extend_rev_range(v: &mut Vec<u32>, lo: u32, hi: u32)
    requires lo <= hi,
    ensures final(v)@ == old(v)@ + Seq::new((hi - lo) as nat, |k: int| (hi - 1 - k) as u32),
{
    v.extend((lo..hi).rev());
}

impl Pool {
    #[inline]
    fn reserve(&mut self, length: usize)
        requires length > 0, old(self).buffer@.len() + length < u32::MAX,
        ensures
            final(self).buffer@.len() == old(self).buffer@.len() + length,
            forall|i: int| 0 <= i < old(self).buffer@.len() ==> #[trigger] final(self).buffer@[i] == old(self).buffer@[i],
            final(self).unused@ == old(self).unused@ + Seq::new(length as nat, |k: int| (old(self).buffer@.len() + length - 1 - k) as u32),
    {
        assert(length > 0);
        let n = self.buffer.len() as u32;
        let l = length as u32;
        self.buffer.reserve(length);
        self.buffer.resize(self.buffer.len() + length, Node::default());
        self.unused.reserve(length);
        extend_rev_range(&mut self.unused, n, n + l);
    }

    #[inline]
    pub(super) fn get_free_index(&mut self) -> (r: u32)
        requires old(self).unused@.len() > 0 || old(self).buffer@.len() + usize::MAX < 0 || true,
        ensures true,
    {
        if self.unused.is_empty() {
            let c = unused_capacity(&self.unused);
            assume(self.buffer@.len() + c < u32::MAX);
            self.reserve(c);
        }
        self.unused.pop().unwrap()
    }
}
}
}
fn main() {}
