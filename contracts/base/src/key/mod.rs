pub mod array;
pub mod exp;
pub mod list;
pub mod tree;
mod node;
mod pool;
mod entity;