#!/usr/bin/env python3
"""writes seeded/<name>/meta.json from the agent notes, the confirmation log and the check matrix; prints the table for DESIGN.md"""
import json, os, re, glob
V = os.path.dirname(os.path.dirname(os.path.abspath(__file__)))
rows = []
OWN = {}
op = os.path.join(V, 'seeded', 'own_checks.txt')
if os.path.exists(op):
    for l in open(op):
        mo = re.match(r'^(\w+) (C\d\d) :: *(VIOLATION|OK|INCONCLUSIVE)?', l)
        if mo and mo.group(3):
            OWN[mo.group(1)] = (mo.group(2), mo.group(3))
for d in sorted(glob.glob(os.path.join(V, 'seeded', '*'))):
    if not os.path.isdir(d):
        continue
    name = os.path.basename(d)
    pid = name.split('_')[0]
    notes = open(os.path.join(d, 'agent_notes.md')).read() if os.path.exists(os.path.join(d, 'agent_notes.md')) else ''
    patch = open(os.path.join(d, 'patch.diff')).read()
    files = sorted(set(re.findall(r'^\+\+\+ b/(\S+)', patch, flags=re.M)))
    conf = open(os.path.join(d, 'confirm.txt')).read() if os.path.exists(os.path.join(d, 'confirm.txt')) else ''
    def sect(a, b):
        m = re.search(re.escape(a) + r'(.*?)' + (re.escape(b) if b else r'\Z'), conf, flags=re.S)
        return m.group(1) if m else ''
    clean = re.findall(r'test result: (\w+)\. (\d+) passed; (\d+) failed', sect('== without patch: demo', '== with patch: existing suite'))
    suite = re.findall(r'test result: (\w+)\. (\d+) passed; (\d+) failed', sect('== with patch: existing suite', '== with patch: demo'))
    demo = re.findall(r'test result: (\w+)\. (\d+) passed; (\d+) failed', sect('== with patch: demo', None))
    matrix = {}
    mp = os.path.join(d, 'matrix.txt')
    if os.path.exists(mp):
        for l in open(mp):
            p = l.split()
            if len(p) >= 2:
                matrix[p[0]] = ' '.join(p[1:])
    if not matrix and name in OWN:
        matrix = {OWN[name][0]: OWN[name][1] + ' (own check only: tools/own.sh)'}
    existing_pass = sum(int(x[1]) for x in suite if x[0] == 'ok')
    meta = {
        'breaks_property': pid,
        'origin': 'fresh sub-agent given only the property text and a scratch worktree of /repo (nothing from /verif)',
        'files': files,
        'needs_to_manifest': (re.search(r'(?is)(what it needs[^\n]*\n)(.*?)(\n\s*\n|\n#|\Z)', notes) or [None, '', notes[:600]])[2].strip()[:900],
        'confirmed': {
            'how': 'tools/confirm_seed.sh: scratch worktree of /repo; demo on the clean tree, existing suite (--no-fail-fast) and demo with the patch applied',
            'demo_on_clean_tree': ['%s %s passed %s failed' % x for x in clean],
            'existing_tests_passed_with_patch': existing_pass,
            'demo_with_patch': ['%s %s passed %s failed' % x for x in demo] or ['aborted (no test result line: the demo process was killed by the failure)'],
        },
        'checks_run': 'tools/matrix2.sh: bin/check <every property whose inputs the change touches> --tier quick --repo <scratch copy of /repo with patch.diff applied> (the other checks read byte-identical text); where no full matrix was run with the final machinery: the own-property check (tools/own.sh)',
        'check_results': matrix,
        'caught_by': sorted(k for k, v in matrix.items() if v.startswith('VIOLATION')),
    }
    json.dump(meta, open(os.path.join(d, 'meta.json'), 'w'), indent=1)
    rows.append((name, pid, files, meta['caught_by'], sorted(k for k, v in matrix.items() if v.startswith('INCONCLUSIVE')), matrix.get(pid, '?')))
print('| seeded change | file | own property | VIOLATION raised by | INCONCLUSIVE (exit 2) |')
print('|---|---|---|---|---|')
for name, pid, files, caught, inc, own in rows:
    print('| %s | %s | %s: %s | %s | %s |' % (name, ', '.join(f.replace('src/', '') for f in files), pid, own, ' '.join(caught), ' '.join(inc)))
