#!/bin/bash
# confirm a seeded change in a scratch worktree of /repo: $1 = dir holding patch.diff and demo_*.rs
# prints: existing tests with patch, demo with patch (must fail), demo without patch (must pass)
set -u
D=$(realpath $1); W=/tmp/wt_confirm_$$
git -C /repo worktree add -q $W HEAD || exit 2
cp $D/demo_*.rs $W/tests/ 2>/dev/null
DEMO=$(basename $(ls $D/demo_*.rs | head -1) .rs)
cd $W
echo "== without patch: demo"; cargo test --offline --test $DEMO 2>&1 | grep "test result" | head -3
git apply $D/patch.diff || { echo "PATCH DOES NOT APPLY"; cd /; git -C /repo worktree remove --force $W; exit 2; }
echo "== with patch: existing suite"; cargo test --offline --no-fail-fast 2>&1 | grep "test result\|Running" | grep -v "$DEMO" | head -12
echo "== with patch: demo"; cargo test --offline --test $DEMO 2>&1 | grep "test result\|panicked" | head -4
cd /; git -C /repo worktree remove --force $W
