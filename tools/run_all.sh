#!/bin/bash
# runs every claimed check's quick (or $1) command in sequence; prints one line per check
cd /verif
TIER=${1:-quick}
for id in $(python3 -c "import json; print(' '.join(c['property_id'] for c in json.load(open('MANIFEST.json'))['checks']))"); do
  /usr/bin/time -f "  ($id %es)" bin/check $id --tier $TIER 2>&1 | tail -3
done
