pub mod sort;
pub mod tree;
pub mod list;
mod pool;
mod node;
