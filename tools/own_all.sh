#!/bin/bash
# own-property check of every seeded change (scratch copies; /repo untouched); output: /var/tmp/own_all.log
cd /verif
ls -d seeded/*_agent* | xargs -P ${1:-3} -I{} bash -c 'tools/own.sh {} 2>&1 | grep -v "^WARNING" | grep -o "^[A-Za-z0-9_]* C[0-9][0-9] ::\|VIOLATION[^|]*\|INCONCLUSIVE[^|]*\|OK property[^|]*" | tr "\n" " "; echo' > /var/tmp/own_all.log 2>&1
echo OWN-ALL-DONE >> /var/tmp/own_all.log
