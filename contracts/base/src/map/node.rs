use crate::map::entity::Entity;

#[derive(PartialEq, Clone, Copy)]
pub(super) enum Color {
    Red,
    Black,
}

#[derive(Clone)]
pub(super) struct Node<K, V> {
    pub(super) parent: u32,
    pub(super) left: u32,
    pub(super) right: u32,
    pub(super) color: Color,
    pub(super) entity: Entity<K, V>,
}

impl<K: Copy + Default, V: Clone + Default> Default for Node<K, V> {
    #[inline]
    fn default() -> Self {
        Self {
            parent: 0,
            left: 0,
            right: 0,
            color: Color::Red,
            entity: Entity::new(K::default(), V::default()),
        }
    }
}
