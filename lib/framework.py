#!/usr/bin/env python3
"""check driver: extract -> prove (Verus / Kani) -> map obligations to the property -> classify -> evidence"""
import json
import os
import re
import shutil
import subprocess
import sys
import time

HERE = os.path.dirname(os.path.abspath(__file__))
VERIF = os.path.dirname(HERE)
sys.path.insert(0, HERE)
import extract  # noqa: E402

CONTRACTS = os.path.join(VERIF, 'contracts')
BASE = os.path.join(CONTRACTS, 'base')

SEMANTIC = (
    'postcondition not satisfied', 'precondition not satisfied', 'assertion failed',
    'invariant not satisfied', 'possible arithmetic underflow/overflow', 'possible division by zero',
    'could not prove termination', 'decreases not satisfied', 'possible bit shift underflow/overflow',
    'loop invariant not satisfied', 'recommendation not met', 'index out of bounds',
    'unwrap', 'may be out of bounds', 'not satisfied',
)
RESOURCE = ('rlimit', 'resource limit', 'timeout', 'timed out', 'canceled', 'cancelled')


def load_json(p):
    with open(p) as f:
        return json.load(f)


# ------------------------------------------------------------------------------------------------
# function index and call graph of an emitted unit file
# ------------------------------------------------------------------------------------------------

def _strip_angles(s):
    out, depth = [], 0
    i = 0
    while i < len(s):
        c = s[i]
        if c == '<':
            depth += 1
        elif c == '>' and depth > 0 and s[i - 1] != '-':
            depth -= 1
        elif depth == 0:
            out.append(c)
        i += 1
    return ''.join(out)


class Fn:
    def __init__(self, path, short, mode, start, end, has_body):
        self.path, self.short, self.mode, self.start, self.end, self.has_body = path, short, mode, start, end, has_body
        self.calls = set()
        self.code_lines = 0      # lines taken from /repo
        self.attrs = set()


def _nocomment(t):
    t = re.sub(r'"(\\.|[^"\\])*"', '""', t)
    return re.sub(r'//.*$', '', t).rstrip()


def index_functions(lines, origin):
    """-> list of Fn (1-based inclusive line ranges) with module / impl-type qualified paths as Verus prints them.
    Relies on the layout convention of the emitted files: a block that closes an item closes on a line of its own at the
    item's indentation; a fn body opens either on the header line or on a line consisting of `{` at the fn's indentation."""
    fns = []
    n = len(lines)
    code = [_nocomment(t) for t in lines]
    ctx = []   # (kind, name, depth_at_open)
    i = 0
    depth_g = 0

    def step(k):
        nonlocal depth_g
        depth_g += code[k].count('{') - code[k].count('}')
        while ctx and depth_g <= ctx[-1][2]:
            ctx.pop()

    while i < n:
        c = code[i]
        s = c.strip()
        ind = c[:len(c) - len(c.lstrip())]
        mo = re.match(r'^(?:pub(?:\([a-z]+\))? )?mod (\w+) \{$', s)
        if mo:
            ctx.append(('mod', mo.group(1), depth_g))
            step(i)
            i += 1
            continue
        if re.match(r'^(?:pub(?:\([a-z]+\))? )?(?:unsafe )?impl\b', s):
            j = i
            hdr = s
            while not hdr.endswith('{') and j + 1 < n:
                j += 1
                hdr += ' ' + code[j].strip()
            h = _strip_angles(hdr)
            h = re.sub(r'\bwhere\b.*$', '', h)
            mo2 = re.match(r'^(?:pub )?(?:unsafe )?impl\s+(?:.*?\bfor\s+)?([\w:]+)', h)
            name = mo2.group(1).split('::')[-1] if mo2 else '?'
            ctx.append(('impl', name, depth_g))
            for q in range(i, j + 1):
                depth_g += code[q].count('{') - code[q].count('}')
            i = j + 1
            continue
        mo = re.match(r'^(?:pub(?:\([a-z]+\))? )?trait (\w+)', s)
        if mo and s.endswith('{'):
            ctx.append(('trait', mo.group(1), depth_g))
            step(i)
            i += 1
            continue
        mo = extract._FNHEAD.match(c)
        if not mo:
            step(i)
            i += 1
            continue
        short = mo.group(3)
        mode = mo.group(2) or 'exec'
        path = '::'.join([x[1] for x in ctx] + [short])
        a = i
        attrs = set()
        while a > 0 and lines[a - 1].strip().startswith('#['):
            a -= 1
            attrs.add(lines[a].strip())
        has_body = True
        end = i
        if s.endswith('{'):
            j = i + 1
            while j < n and code[j] != ind + '}':
                j += 1
            end = j
        elif '{' in s and s.count('{') == s.count('}') and s.endswith('}'):
            end = i
        else:
            depth = 0
            j = i
            found = None
            while j < n:
                if j > i and code[j] == ind + '{' and depth == 0:
                    found = 'body'
                    break
                for ch in code[j]:
                    if ch in '([{':
                        depth += 1
                    elif ch in ')]}':
                        depth -= 1
                if depth == 0 and code[j].endswith(';'):
                    found = 'decl'
                    break
                j += 1
            if found == 'body':
                k = j + 1
                while k < n and code[k] != ind + '}':
                    k += 1
                end = k
            else:
                has_body = False
                end = j
        end = min(end, n - 1)
        f = Fn(path, short, mode, a + 1, end + 1, has_body)
        f.attrs = attrs
        f.code_lines = sum(1 for q in range(a, end + 1) if origin[q][0] == 'C')
        fns.append(f)
        i = end + 1
    by_short = {}
    for f in fns:
        by_short.setdefault(f.short, []).append(f)
    types = set(f.path.split('::')[-2] for f in fns if '::' in f.path)
    std_recv = {'buffer', 'unused', 'chunks', 'stack', 'list', 'view', 'ord', 'ng'}
    call_rx = re.compile(r'((?:[A-Za-z_][\w@]*(?:\([^()]*\))?(?:\.|::))*)([A-Za-z_]\w*)\s*(?:::<[^>()]*>)?\(')
    for f in fns:
        body = '\n'.join(code[q] for q in range(f.start - 1, f.end))
        own_type = f.path.split('::')[-2] if '::' in f.path else None
        for pre, name in set(call_rx.findall(body)):
            cands = by_short.get(name, [])
            if not cands:
                continue
            pre = pre.strip()
            if pre == '':
                sel = [g for g in cands if g.path.split('::')[-2:-1] and g.path.split('::')[-2] not in types] or \
                      [g for g in cands if g.mode != 'exec'] or cands
            elif pre.endswith('::'):
                ty = pre[:-2].split('::')[-1]
                if ty == 'Self':
                    ty = own_type
                if ty not in types:
                    continue
                sel = [g for g in cands if g.path.split('::')[-2] == ty]
            else:
                recv = pre[:-1]
                last = re.sub(r'\(.*\)$', '', recv.split('.')[-1]).replace('@', '')
                if last in std_recv:
                    continue
                if recv in ('self', 'old(self)', 'final(self)'):
                    sel = [g for g in cands if g.path.split('::')[-2] == own_type] or cands
                else:
                    sel = [g for g in cands if g.path.split('::')[-2] in types and g.path.split('::')[-2] != own_type] or cands
            for g in sel:
                if g is not f:
                    f.calls.add(g.path)
    return fns


def cone(fns, tops):
    by_path = {f.path: f for f in fns}
    seen = set()
    todo = []
    for t in tops:
        if t.endswith('*'):
            todo.extend(p for p in by_path if p.startswith(t[:-1]))
        elif t in by_path:
            todo.append(t)
        else:
            todo.append(t)   # reported as missing later
    while todo:
        p = todo.pop()
        if p in seen:
            continue
        seen.add(p)
        if p in by_path:
            todo.extend(by_path[p].calls)
    return seen


# ------------------------------------------------------------------------------------------------
# Verus
# ------------------------------------------------------------------------------------------------

ASSUME_RX = re.compile(r'\b(assume\s*\(|admit\s*\(|external_body|assume_specification|exec_allows_no_decreases_clause|external_fn_specification|#\[verifier::external\])')


def scan_assumptions(lines, origin):
    found = []
    for k, t in enumerate(lines):
        c = re.sub(r'//.*$', '', t)
        mo = ASSUME_RX.search(c)
        if mo and origin[k][1] != 'framework.py':
            kind = mo.group(1).rstrip('( ').strip()
            # name: the next fn / the assume_specification target
            name = None
            if 'assume_specification' in c:
                m2 = re.search(r'assume_specification(?:<[^\[]*>)?\s*\[\s*(.+?)\s*\]', c)
                name = m2.group(1) if m2 else c.strip()
            else:
                for q in range(k, min(k + 6, len(lines))):
                    m3 = re.search(r'\b(?:fn|const) (\w+)', lines[q])
                    if m3:
                        name = m3.group(1)
                        break
            found.append({'kind': kind, 'name': name, 'line': k + 1, 'origin': list(origin[k]), 'text': t.strip()[:160]})
    return found


GHOST_START = ('proof {', 'proof{', 'let ghost', 'assert(', 'assert forall', 'assert ', '//', '#[')
CLAUSE_START = ('invariant', 'ensures', 'requires', 'decreases')


def exec_annotation_lines(lines, origin, fns):
    """annotation lines inside the bodies of /repo functions that are NOT ghost code (proof blocks, ghost lets, assertions,
    contract / invariant clauses, attributes, comments).  Verus itself guarantees that ghost code cannot influence
    executable behaviour; what remains is listed so that it can be checked against the allow-list (T11 `else { proof }`
    wrappers, the T17 rebinding of `mut self`)."""
    found = []
    for f in fns:
        if f.mode != 'exec' or not f.has_body or f.code_lines == 0:
            continue
        depth = 0
        clause = False
        for q in range(f.start - 1, f.end):
            t = lines[q]
            s = t.strip()
            if origin[q][0] != 'A':
                clause = False
                if depth > 0:
                    depth += _nocomment(t).count('{') - _nocomment(t).count('}')
                continue
            c = _nocomment(t)
            if depth > 0:
                depth += c.count('{') - c.count('}')
                continue
            if s == '' or s.startswith(GHOST_START):
                depth += c.count('{') - c.count('}')
                depth = max(depth, 0)
                continue
            if s.startswith(CLAUSE_START):
                clause = True
                continue
            if clause:
                continue
            found.append({'fn': f.path, 'line': q + 1, 'text': s[:120], 'origin': list(origin[q])})
    return found


def _verus_once(unit, out_rs, scratch, lines, origin, rep, rlimit_mult, extra_args, t_extract):
    fns = index_functions(lines, origin)
    cmd = ['verus', out_rs, '--num-threads', str(os.cpu_count() or 8), '--error-format=json', '--output-json', '--time-expanded']
    if rlimit_mult != 1.0:
        cmd += ['--rlimit', str(int(10 * rlimit_mult))]
    if extra_args:
        cmd += extra_args
    t0 = time.time()
    p = subprocess.run(cmd, cwd=scratch, capture_output=True, text=True)
    t_verus = time.time() - t0
    res = {'unit': unit, 'emitted': out_rs, 'extract': {k: rep[k] for k in ('files', 'transform_counts', 'problems', 'spinoff_attrs')},
           'cmd': ' '.join(cmd), 't_extract': t_extract, 't_verus': t_verus, 'rc': p.returncode,
           'lines': lines, 'origin': origin, 'fns': fns}
    try:
        j = json.loads(p.stdout)
    except Exception:
        j = None
    res['json'] = j
    diags = []
    for l in p.stderr.split('\n'):
        l = l.strip()
        if not l.startswith('{'):
            continue
        try:
            d = json.loads(l)
        except Exception:
            continue
        if d.get('level') in ('error', 'warning'):
            diags.append(d)
    res['stderr_tail'] = p.stderr[-4000:] if j is None else ''
    # per-function results
    fres = {}
    if j:
        crate = os.path.basename(out_rs)[:-3]
        for m in j.get('times-ms', {}).get('smt', {}).get('smt-run-module-times', []):
            for f in m.get('function-breakdown', []):
                name = f['function']
                if name.startswith(crate + '::'):
                    name = name[len(crate) + 2:]
                fres[name] = {'mode': f.get('mode:'), 'ok': f.get('success'), 'ms': f.get('time'), 'rlimit': f.get('rlimit')}
    res['fres'] = fres
    # errors -> (function, kind, repo location)
    errs = []
    ftab = []
    for f in fns:
        ftab.append(f)
    def fn_at(line):
        best = None
        for f in ftab:
            if f.start <= line <= f.end and (best is None or f.start >= best.start):
                best = f
        return best
    for d in diags:
        if d.get('level') != 'error':
            continue
        msg = d.get('message', '')
        if msg.startswith('aborting due to'):
            continue
        spans = d.get('spans', [])
        prim = [s for s in spans if s.get('is_primary')] or spans
        # the function in which the obligation arises: the span inside an exec/proof fn of the emitted file that is
        # the "at this call / at the end of the function body" site; take the last primary span
        sites = []
        for s in spans:
            ln = s.get('line_start')
            f = fn_at(ln) if ln else None
            org = origin[ln - 1] if ln and ln - 1 < len(origin) else None
            sites.append({'line': ln, 'label': s.get('label'), 'primary': s.get('is_primary'), 'fn': f.path if f else None,
                          'mode': f.mode if f else None, 'origin': list(org) if org else None,
                          'text': (lines[ln - 1].strip()[:200] if ln and ln - 1 < len(lines) else '')})
        errs.append({'message': msg, 'code': (d.get('code') or {}).get('code') if d.get('code') else None, 'sites': sites,
                     'rendered': (d.get('rendered') or '')[:3000]})
    res['errors'] = errs
    return res


def run_verus(unit, repo, scratch, seed=0, rlimit_mult=1.0, extra_args=None, tag=''):
    """extract + verify one unit.  Returns a dict with everything the classifier needs."""
    units = load_json(os.path.join(CONTRACTS, 'units.json'))
    u = units[unit]
    stem = '%s%s' % (unit, tag)
    out_rs = os.path.join(scratch, stem + '.rs')
    subst = load_json(os.path.join(CONTRACTS, 'subst.json')) if os.path.exists(os.path.join(CONTRACTS, 'subst.json')) else {}
    subst = {k: [tuple(r) for r in v] for k, v in subst.items()}
    t0 = time.time()
    rep = extract.build_unit(os.path.join(CONTRACTS, u['overlay']), BASE, repo, out_rs, subst_tables=subst)
    lines, origin = rep['lines'], rep['origin']
    t_extract = time.time() - t0
    synthetic = []
    for attempt in range(3):
        res = _verus_once(unit, out_rs, scratch, lines, origin, rep, rlimit_mult, extra_args, t_extract)
        fns = res['fns']
        nodec = [e for e in res['errors'] if 'loop must have a decreases clause' in e['message']]
        if not nodec or attempt == 2:
            break
        # a loop without a decreases clause stops Verus before it verifies anything: record the missing termination
        # argument as a failed obligation of that function and let the rest of the unit be verified
        targets = set()
        for e in nodec:
            site = failing_fn(e)
            if site and site['fn']:
                targets.add(site['fn'])
                e2 = dict(e)
                e2['message'] = 'could not prove termination: loop without a decreases clause'
                synthetic.append(e2)
        if not targets:
            break
        by_path = {f.path: f for f in fns}
        ins = sorted((by_path[t].start - 1 for t in targets if t in by_path), reverse=True)
        for q in ins:
            ind = lines[q][:len(lines[q]) - len(lines[q].lstrip())]
            lines.insert(q, ind + '#[verifier::exec_allows_no_decreases_clause]')
            origin.insert(q, ('A', 'framework.py', 0))
        with open(out_rs, 'w') as fh:
            fh.write('\n'.join(lines) + '\n')
    res['errors'] = synthetic + [e for e in res['errors'] if 'loop must have a decreases clause' not in e['message']]
    # the sites of the synthetic errors refer to the first emission; re-anchor them by function only
    res['assumption_scan'] = scan_assumptions(lines, origin)
    res['exec_annotations'] = exec_annotation_lines(lines, origin, fns)
    return res


def classify_error(e):
    m = e['message'].lower()
    if e.get('code'):
        return 'compile'
    if any(k in m for k in RESOURCE):
        return 'resource'
    if any(k in m for k in SEMANTIC):
        return 'semantic'
    return 'other'


def failing_fn(e):
    """the function whose obligation failed: the function containing the primary span that lies in a fn body"""
    prim = [s for s in e['sites'] if s['primary'] and s['fn']]
    if prim:
        # for postconditions the primary span is the ensures clause (inside the same fn); for preconditions
        # the primary span is the call site
        return prim[-1]
    anyf = [s for s in e['sites'] if s['fn']]
    return anyf[-1] if anyf else None
