use vstd::prelude::*;
verus! {
mod m {
use vstd::prelude::*;
use std::cmp::Ordering;

pub trait MapCollection<K, V> {
    spec fn wf(&self) -> bool;
    spec fn view(&self) -> Map<K, V>;
    spec fn handle_key(&self, index: u32) -> Option<K>;

    fn is_empty(&self) -> (r: bool)
        requires self.wf(),
        ensures r == (self.view().dom() =~= Set::empty());
    fn insert(&mut self, key: K, val: V)
        requires old(self).wf(), !old(self).view().dom().contains(key),
        ensures final(self).wf(), final(self).view() == old(self).view().insert(key, val);
    fn get_value(&self, key: K) -> (r: Option<&V>)
        requires self.wf(),
        ensures match r { Some(v) => self.view().dom().contains(key) && *v == self.view()[key], None => !self.view().dom().contains(key) };
    fn first_index_less_by<F>(&self, f: F) -> (r: u32)
    where
        F: Fn(K) -> Ordering
        requires self.wf(), forall|k: K| f.requires((k,)),
        ;
}

pub struct MapList<K, V> { pub buffer: Vec<(K, V)> }

impl<K: Copy + Ord, V: Clone> MapCollection<K, V> for MapList<K, V> {
    open spec fn wf(&self) -> bool { true }
    open spec fn view(&self) -> Map<K, V> { Map::empty() }
    open spec fn handle_key(&self, index: u32) -> Option<K> { None }
    #[verifier::external_body]
    fn is_empty(&self) -> bool { self.buffer.is_empty() }
    #[verifier::external_body]
    fn insert(&mut self, key: K, val: V) { }
    #[verifier::external_body]
    fn get_value(&self, key: K) -> Option<&V> { None }
    fn first_index_less_by<F>(&self, f: F) -> u32
    where
        F: Fn(K) -> Ordering,
    { 0 }
}
}
}
fn main() {}
