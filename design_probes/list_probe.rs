#![feature(allocator_api)]
use vstd::prelude::*;
verus! {
mod map {
use vstd::prelude::*;
use std::cmp::Ordering;
use vstd::std_specs::cmp::*;

pub const EMPTY_REF: u32 = u32::MAX;

pub open spec fn key_lt<K: Ord>(a: K, b: K) -> bool { a.cmp_spec(&b) == Ordering::Less }
pub open spec fn key_eq<K: Ord>(a: K, b: K) -> bool { a.cmp_spec(&b) == Ordering::Equal }

pub open spec fn ord_laws<K: Ord>() -> bool {
    &&& K::obeys_cmp_spec()
    &&& K::obeys_partial_cmp_spec()
    &&& forall|a: K, b: K| #[trigger] a.partial_cmp_spec(&b) == Some(a.cmp_spec(&b))
    &&& forall|a: K| #[trigger] key_eq(a, a)
    &&& forall|a: K, b: K| (#[trigger] a.cmp_spec(&b) == Ordering::Less) <==> b.cmp_spec(&a) == Ordering::Greater
    &&& forall|a: K, b: K| #[trigger] key_eq(a, b) ==> key_eq(b, a)
    &&& forall|a: K, b: K, c: K| #[trigger] key_lt(a, b) && #[trigger] key_lt(b, c) ==> key_lt(a, c)
    &&& forall|a: K, b: K, c: K| #[trigger] key_eq(a, b) && #[trigger] key_lt(b, c) ==> key_lt(a, c)
    &&& forall|a: K, b: K, c: K| #[trigger] key_lt(a, b) && #[trigger] key_eq(b, c) ==> key_lt(a, c)
}

pub struct Entity<K, V> { pub key: K, pub val: V }

// stands for `buf.binary_search_by(|e| e.key.cmp(&key))` (and for `binary_search_by_key(&key, |e| e.key)`, which std
// defines as exactly that). Assumed std contract, specialised to this call shape: on a slice sorted by key,
// Ok(i) points at an entry equivalent to the probe, Err(i) is the insertion point.
#[verifier::external_body]
pub fn bsearch_key<K: Copy + Ord, V>(buf: &Vec<Entity<K, V>>, key: K) -> (r: Result<usize, usize>)
    requires sorted_list(buf@),
    ensures
        match r {
            Ok(i) => i < buf@.len() && key_eq(buf@[i as int].key, key),
            Err(i) => i <= buf@.len()
                && (forall|j: int| 0 <= j < i ==> key_lt(#[trigger] buf@[j].key, key))
                && (forall|j: int| i <= j < buf@.len() ==> key_lt(key, #[trigger] buf@[j].key)),
        },
{
    buf.binary_search_by(|e| e.key.cmp(&key))
}

pub open spec fn sorted_list<K: Ord, V>(s: Seq<Entity<K, V>>) -> bool {
    forall|i: int, j: int| 0 <= i < j < s.len() ==> key_lt(#[trigger] s[i].key, #[trigger] s[j].key)
}

pub struct MapList<K, V> {
    pub buffer: Vec<Entity<K, V>>,
}

impl<K: Copy + Ord, V: Clone> MapList<K, V> {
    #[inline]
    fn first_index_less(&self, key: K) -> (r: u32)
        requires ord_laws::<K>(), self.buffer@.len() < u32::MAX, sorted_list(self.buffer@),
        ensures
            // same contract as MapTree::search_first_less, handles being positions
            r == EMPTY_REF ==> forall|q: int| 0 <= q < self.buffer@.len() ==> key_lt(key, #[trigger] self.buffer@[q].key),
            r != EMPTY_REF ==> {
                &&& (r as int) < self.buffer@.len()
                &&& !key_lt(key, self.buffer@[r as int].key)
                &&& forall|q: int| (r as int) < q && q < self.buffer@.len() ==> key_lt(key, #[trigger] self.buffer@[q].key)
            },
    {
        match bsearch_key(&self.buffer, key) {
            Ok(index) => {
                proof {
                    let s = self.buffer@;
                    assert(key_eq(s[index as int].key, key));
                    assert forall|q: int| (index as int) < q && q < s.len() implies key_lt(key, #[trigger] s[q].key) by {
                        assert(key_lt(s[index as int].key, s[q].key));
                        assert(key_eq(key, s[index as int].key));
                    }
                }
                index as u32
            },
            Err(index) => {
                if index > 0 {
                    (index - 1) as u32
                } else {
                    EMPTY_REF
                }
            }
        }
    }
}
}
}
fn main() {}
