#!/usr/bin/env python3
"""prints the ids of the checks whose inputs include any file touched by a patch (the other checks read text that the patch leaves
byte-identical, so their result is the unchanged tree's)"""
import json, os, re, sys
V = os.path.dirname(os.path.dirname(os.path.abspath(__file__)))
patch = open(sys.argv[1]).read()
files = set(re.findall(r'^\+\+\+ b/(\S+)', patch, flags=re.M))
unit_files = {}
for u, d in json.load(open(os.path.join(V, 'contracts', 'units.json'))).items():
    t = open(os.path.join(V, 'contracts', d['overlay'])).read()
    unit_files[u] = set(re.findall(r'^//@ file (\S+)', t, flags=re.M))
pm = json.load(open(os.path.join(V, 'contracts', 'property_map.json')))
out = []
for pid in sorted(pm):
    p = pm[pid]
    fs = set()
    for u in list((p.get('verus') or {}).keys()) + list((p.get('support') or {}).keys()):
        fs |= unit_files.get(u, set())
    for e in p.get('engines', []):
        if e['kind'] == 'kani':
            fs |= {f for f in unit_files['seg']}
        if e['kind'] == 'replay':
            for j in e.get('jobs', []):
                if j['name'].startswith('clear-expired'):
                    fs |= {'src/key/list.rs', 'src/key/entity.rs', 'src/lib.rs'}
                elif j['name'] == 'finding':
                    # regression witnesses: the collection each one exercises
                    wu = {'F1': ['key', 'lists'], 'F2': ['key'], 'F3': ['key'], 'F4': ['set'], 'F5': ['lists'], 'F6': ['key'], 'F7': ['seg']}
                    for fid in j.get('ids', []):
                        for u in wu.get(fid, list(unit_files)):
                            fs |= unit_files[u]
                else:
                    fs |= set().union(*unit_files.values())
    if fs & files:
        out.append(pid)
print(' '.join(out))
