#!/bin/bash
# every claimed check against scratch copies of /repo with each *harmless* patch of a directory applied
# usage: tools/harmless.sh <dir with hNN.diff> [parallel]   -> <dir>/hNN.result (one line per property)
cd /verif
D=$1; P=${2:-4}
IDS=$(python3 -c "import json; print(' '.join(c['property_id'] for c in json.load(open('MANIFEST.json'))['checks']))")
run_one() {
  f=$1; name=$(basename $f .diff); R=/var/tmp/harmrepos/$name
  rm -rf $R; mkdir -p $R; cp -r /repo/src /repo/Cargo.toml $R/
  (cd $R && patch -p1 -s < $f) || { echo "patch failed" > ${f%.diff}.result; return; }
  [ -f ${f%.diff}.result ] && return
  : > ${f%.diff}.result.tmp
  REL=$(python3 tools/relevant_checks.py $f)
  for id in $IDS; do
    case " $REL " in *" $id "*) ;; *) echo "$id OK (inputs untouched by the patch: same text as the unchanged tree)" >> ${f%.diff}.result.tmp; continue;; esac
    out=$(bin/check $id --tier quick --repo $R 2>&1 | grep -v "^WARNING")
    v=$(echo "$out" | grep -o "^VIOLATION\|^OK\|^INCONCLUSIVE" | head -1)
    why=$(echo "$out" | grep "^INCONCLUSIVE\|failed obligation" | head -2 | cut -c1-260 | tr '\n' '|')
    echo "$id ${v:-ERROR} $why" >> ${f%.diff}.result.tmp
  done
  mv ${f%.diff}.result.tmp ${f%.diff}.result
  rm -rf $R
}
export -f run_one; export IDS
ls $D/h*.diff | xargs -P $P -I{} bash -c 'run_one {}'
echo HARMLESS-DONE
