#!/usr/bin/env python3
"""property-level orchestration: which units / harnesses decide a property, classification, evidence"""
import json
import os
import re
import subprocess
import sys
import time

import framework as F

VERIF = F.VERIF
CONTRACTS = F.CONTRACTS


def _overlay_span(fn, origin):
    """(overlay file, lo, hi) of the annotation lines inside fn"""
    lo = hi = None
    name = None
    for q in range(fn.start - 1, fn.end):
        o = origin[q]
        if o[0] == 'A' and o[1].endswith('.vrs'):
            name = o[1]
            lo = o[2] if lo is None else min(lo, o[2])
            hi = o[2] if hi is None else max(hi, o[2])
    return name, lo, hi


_BASE_TEXT = {}


def _new_function(fn, origin):
    """True if no `fn <name>` exists in the base copy of the /repo file this function's header comes from"""
    for q in range(fn.start - 1, fn.end):
        o = origin[q]
        if o[0] == 'C':
            rel = o[1]
            if rel not in _BASE_TEXT:
                try:
                    _BASE_TEXT[rel] = open(os.path.join(VERIF, 'contracts', 'base', rel)).read()
                except OSError:
                    _BASE_TEXT[rel] = ''
            return re.search(r'\bfn %s\b' % re.escape(fn.short), _BASE_TEXT[rel]) is None
    return False


def analyse_unit(r, tops, allowed_assumptions, support=None):
    """-> dict(obligations=[..], failures=[..], inconclusive=[..], assumptions=[..])"""
    out = {'unit': r['unit'], 'obligations': [], 'failures': [], 'inconclusive': [], 'assumptions': [], 'functions_under_contract': []}
    for p in r['extract']['problems']:
        out['inconclusive'].append({'why': p['kind'], 'detail': p})
    fns = r['fns']
    by_path = {f.path: f for f in fns}
    primary = F.cone(fns, tops)
    cone = F.cone(fns, list(tops) + list(support or []))
    out['primary_cone'] = primary
    missing = [t for t in list(tops) + list(support or []) if not t.endswith('*') and t not in by_path]
    for t in missing:
        out['inconclusive'].append({'why': 'function-not-found', 'detail': t})
    if r['json'] is None:
        out['inconclusive'].append({'why': 'verus-produced-no-result', 'detail': r['stderr_tail'][-1500:]})
    # compile-level errors make the whole unit undecided
    for e in r['errors']:
        k = F.classify_error(e)
        if k == 'compile' or (k == 'other' and not any(s['fn'] for s in e['sites'])):
            site = F.failing_fn(e)
            out['inconclusive'].append({'why': 'compile-error', 'detail': e['message'], 'fn': site['fn'] if site else None,
                                        'rendered': e['rendered'][:1500]})
    lost_by_file = {}
    for fi in r['extract']['files']:
        for kind, ono in fi['lost_rewrites']:
            lost_by_file.setdefault(fi['file'], []).append((kind, ono))
    all_lost = [x for v in lost_by_file.values() for x in v]
    fres = dict(r['fres'])
    # Verus names a method by the module of its type, the index by the module of the impl block: reconcile by `Type::name`
    tails = {}
    for k in r['fres']:
        tails.setdefault('::'.join(k.split('::')[-2:]), []).append(k)
    for f in fns:
        if f.path not in fres:
            c = tails.get('::'.join(f.path.split('::')[-2:]), [])
            if len(c) == 1:
                fres[f.path] = r['fres'][c[0]]
    for p in sorted(cone):
        f = by_path.get(p)
        if not f:
            continue
        if p in fres:
            fr = fres[p]
            out['obligations'].append({'function': p, 'mode': f.mode, 'ok': bool(fr['ok']), 'smt_ms': fr['ms'], 'rlimit': fr['rlimit'],
                                       'repo_code_lines': f.code_lines})
        if f.mode == 'exec' and f.has_body and f.code_lines > 0:
            out['functions_under_contract'].append(p)
    # failures
    seen = set()
    for e in r['errors']:
        k = F.classify_error(e)
        site = F.failing_fn(e)
        if not site or site['fn'] not in cone:
            continue
        f = by_path[site['fn']]
        key = (site['fn'], e['message'], site['line'])
        if key in seen:
            continue
        seen.add(key)
        rec = {'function': site['fn'], 'mode': f.mode, 'kind': e['message'], 'site_text': site['text'], 'site_origin': site['origin'], 'in_primary': site['fn'] in primary,
               'sites': e['sites'], 'rendered': e['rendered']}
        ovname, lo, hi = _overlay_span(f, r['origin'])
        # did the change insert statements into this function (extractor: restructured_fns)?
        crange = [o for o in r['origin'][f.start - 1:f.end] if o[0] == 'C']
        if crange:
            for fi in r['extract']['files']:
                if fi['file'] == crange[0][1]:
                    for a0, a1, n_ins in fi.get('restructured_fns', []):
                        if any(a0 <= o[2] <= a1 for o in crange):
                            rec['restructured'] = n_ins
        lost_here = [x for x in all_lost if lo is not None and lo <= x[1] <= hi]
        new_fn = f.mode == 'exec' and f.code_lines > 0 and lo is None and _new_function(f, r['origin'])
        if k == 'semantic' and new_fn:
            # a function the overlay has never seen (added by the change, e.g. a helper extracted from an annotated function):
            # it has no contract, so obligations inside it are undecided, not violated
            rec['why'] = 'function-without-contract (not present in the text the contracts were written for)'
            out['inconclusive'].append(rec)
        elif k == 'semantic' and f.mode == 'exec' and f.code_lines > 0 and not lost_here:
            out['failures'].append(rec)
        elif k == 'compile':
            pass
        else:
            rec['why'] = ('lost-anchor' if lost_here else 'proof-defect' if f.mode != 'exec' or f.code_lines == 0 else
                          'resource-limit' if k == 'resource' else 'unclassified-error')
            out['inconclusive'].append(rec)
    for p in cone:
        if p in fres and not fres[p]['ok'] and not any(x['function'] == p for x in out['failures']) and \
                not any(x.get('function') == p for x in out['inconclusive']):
            out['inconclusive'].append({'why': 'function-failed-without-diagnostic', 'function': p})
    # annotation lines that are executable text (not ghost code) must be of an allow-listed shape
    allow_exec = [r'^\}? ?else \{$', r'^\}$', r'^\w+: Ghost\(.*\),$', r'^let mut this = self;$', r'^V: KeyValue<K>,$']
    out['exec_annotation_lines'] = len(r.get('exec_annotations', []))
    for ea in r.get('exec_annotations', []):
        if not any(re.match(rx, ea['text']) for rx in allow_exec):
            out['inconclusive'].append({'why': 'exec-annotation-not-allowed', 'detail': ea})
    # assumptions used by the cone
    for a in r['assumption_scan']:
        ok = any(re.fullmatch(x['name'], a['name'] or '') and x['kind'] == a['kind'] for x in allowed_assumptions)
        a2 = dict(a)
        a2['allowed'] = ok
        # relevance: in the cone (by fn short name) or an assume_specification (global)
        if a['kind'] == 'assume_specification' or any(by_path[p].short == a['name'] for p in cone if p in by_path) or not ok:
            out['assumptions'].append(a2)
            if not ok:
                out['inconclusive'].append({'why': 'unlisted-assumption', 'detail': a2})
    # std calls replaced by the loop std documents them to be (verified loop, assumed equivalence)
    if any(by_path[p].short == 'extend_rev_range' for p in cone if p in by_path):
        out['assumptions'].append({'kind': 'std-documented-loop', 'allowed': True,
                                   'name': 'T5: `v.extend((a..b).rev())` is the loop pushing b-1, b-2, .., a (Extend / Rev<Range> as documented); '
                                           'the loop is verified, the equivalence is assumed'})
    if any(by_path[p].short == 'vals_of' for p in cone if p in by_path):
        out['assumptions'].append({'kind': 'std-documented-loop', 'allowed': True,
                                   'name': 'T5b: `buf.iter().map(|e| e.val).collect()` is the loop pushing e.val for every element in order '
                                           '(slice::Iter / Map / FromIterator for Vec as documented); the loop is verified, the equivalence is assumed'})
    return out


def vacuity_probe(r, tops_only, scratch, tops):
    """must-fail probe: `assert(false)` as the first statement of exec functions must be rejected in every one of
    them (a contradictory `requires` would let it pass).  Returns (n_probed, survivors)."""
    fns = r['fns']
    lines = list(r['lines'])
    cone = F.cone(fns, tops)
    by_path = {f.path: f for f in fns}
    targets = []
    for p in cone:
        f = by_path.get(p)
        if not f or f.mode != 'exec' or not f.has_body or f.code_lines == 0:
            continue
        if any('external_body' in a for a in f.attrs):
            continue
        if tops_only and p not in tops:
            continue
        targets.append(f)
    ins = {}
    for f in targets:
        ind = None
        for q in range(f.start - 1, f.end):
            c = F._nocomment(lines[q])
            m = re.match(r'^(\s*)(?:#\[.*\]\s*)*(?:pub(?:\([a-z]+\))? )?fn ', c)
            if m and ind is None:
                ind = m.group(1)
                if c.endswith('{'):
                    ins[q] = ind + '    proof { assert(false); }'
                    break
                continue
            if ind is not None and c == ind + '{':
                ins[q] = ind + '    proof { assert(false); }'
                break
    out = []
    for q, t in enumerate(lines):
        out.append(t)
        if q in ins:
            out.append(ins[q])
    path = os.path.join(scratch, r['unit'] + '_vac.rs')
    with open(path, 'w') as fh:
        fh.write('\n'.join(out) + '\n')
    cmd = ['verus', path, '--num-threads', str(os.cpu_count() or 8), '--output-json', '--time-expanded']
    p = subprocess.run(cmd, cwd=scratch, capture_output=True, text=True)
    try:
        j = json.loads(p.stdout)
    except Exception:
        return len(targets), ['<no verus result>']
    if not j.get('times-ms', {}).get('smt', {}).get('smt-run-module-times'):
        return len(targets), ['<no verus result>']
    crate = os.path.basename(path)[:-3]
    ok = {}
    for m in j.get('times-ms', {}).get('smt', {}).get('smt-run-module-times', []):
        for f in m.get('function-breakdown', []):
            n = f['function']
            if n.startswith(crate + '::'):
                n = n[len(crate) + 2:]
            ok[n] = f.get('success')
    tails = {}
    for k in ok:
        tails.setdefault('::'.join(k.split('::')[-2:]), []).append(k)

    def impl_group(f):
        # a method of a trait impl is reported as `<module>::impl&%N::<name>` (N: the ordinal of the impl block): several impls
        # of one trait in one module give several candidates with the same method name
        mod, name = '::'.join(f.path.split('::')[:-2]), f.path.split('::')[-1]
        return (mod, name), [k for k in ok if k.split('::')[-1] == name and '::'.join(k.split('::')[:-2]) == mod and 'impl&%' in k]

    groups = {}
    for f in targets:
        if f.path in ok or len(tails.get('::'.join(f.path.split('::')[-2:]), [])) == 1:
            continue
        g, cands = impl_group(f)
        groups.setdefault(g, {'targets': [], 'cands': cands})['targets'].append(f.path)

    def verdict(f):
        if f.path in ok:
            return ok[f.path]
        c = tails.get('::'.join(f.path.split('::')[-2:]), [])
        if len(c) == 1:
            return ok[c[0]]
        g, cands = impl_group(f)
        if not cands:
            return True
        # every probed member of the group must have been rejected: at most (candidates - probed) functions may still verify
        accepted = sum(1 for k in cands if ok[k])
        return accepted > len(cands) - len(groups[g]['targets'])
    survivors = [f.path for f in targets if verdict(f)]
    return len(targets), survivors


def load_known():
    p = os.path.join(VERIF, 'known_findings.json')
    if os.path.exists(p):
        return F.load_json(p)
    return {'findings': []}


def match_known(pid, fail, known):
    for k in known.get('findings', []):
        if k.get('status') != 'known':
            continue
        if k.get('property') != pid:
            continue
        if k.get('function') and k['function'] != fail.get('function'):
            continue
        if k.get('kind') and k['kind'] not in fail.get('kind', ''):
            continue
        if k.get('site') and k['site'] not in (fail.get('site_text') or ''):
            continue
        return k
    return None


def check_property(pid, tier, repo, scratch, seed):
    t0 = time.time()
    pmap = F.load_json(os.path.join(CONTRACTS, 'property_map.json'))
    allowed = F.load_json(os.path.join(CONTRACTS, 'allowed_assumptions.json'))
    if pid not in pmap:
        print('INCONCLUSIVE property=%s not-claimed' % pid)
        return 2
    pm = pmap[pid]
    known = load_known()
    units = []
    failures, inconclusive = [], []
    checker_cmds = []
    vac = []
    from concurrent.futures import ThreadPoolExecutor

    def unit_job(item):
        unit, tops = item
        r = F.run_verus(unit, repo, scratch, seed)
        a = analyse_unit(r, tops, allowed, (pm.get('support') or {}).get(unit))
        a['t_verus'] = r['t_verus']
        a['t_extract'] = r['t_extract']
        a['extract'] = r['extract']
        a['cmd'] = r['cmd'].replace(scratch, '$SCRATCH')
        a['vac'] = None
        if not a['inconclusive'] and not a['failures'] and r['json'] is not None:
            n, surv = vacuity_probe(r, tier != 'thorough', scratch, tops)
            a['vac'] = {'unit': unit, 'probed': n, 'not_rejected': surv}
        return a

    def engine_job(eng):
        return run_engine(eng, pid, tier, repo, scratch, seed)

    with ThreadPoolExecutor(max_workers=6) as ex:
        unit_items = dict(pm.get('verus', {}))
        for su in (pm.get('support') or {}):
            unit_items.setdefault(su, [])
        ufut = [ex.submit(unit_job, it) for it in unit_items.items()]
        efut = [ex.submit(engine_job, e) for e in pm.get('engines', [])]
        for fu in ufut:
            a = fu.result()
            unit = a['unit']
            checker_cmds.append(a['cmd'])
            units.append(a)
            failures += [dict(x, unit=unit) for x in a['failures']]
            inconclusive += [dict(x, unit=unit) for x in a['inconclusive']]
            if a['vac']:
                vac.append(a['vac'])
                if a['vac']['not_rejected']:
                    inconclusive.append({'why': 'vacuity-probe-did-not-run (the unit does not compile)' if a['vac']['not_rejected'] == ['<no verus result>'] else 'vacuous-precondition',
                                         'unit': unit, 'detail': a['vac']['not_rejected']})
        extra = []
        for fu in efut:
            res = fu.result()
            extra.append(res)
            failures += res.get('failures', [])
            inconclusive += res.get('inconclusive', [])
            checker_cmds += res.get('cmds', [])
    # ---- classification
    # which failed obligations speak about THIS property (the others leave it undecided, not violated)
    relv = pm.get('relevance') or {}

    INV_WORDS = ('wf(', 'seg_wf(', 'klist_wf(', '.wf(', '.inv()', 'ji(', 'sinv(', 'cinv(', 'pinv(', 'fresh(', 'seg_fresh(')

    def relevant(f):
        if f.get('concrete_input'):
            return True
        if f.get('function', '').startswith('kani::') and relv.get('safety'):
            # a property about safety only (C10): of a failed harness only the checks Kani adds itself count (overflow, bounds,
            # shifts, division, unwinding), not the functional assertions of the harness
            return any(x in f.get('kind', '') for x in ('overflow', 'out of bounds', 'division by zero', 'unwinding', 'dereference', 'remainder', 'shift'))
        if f.get('function', '').startswith('kani::') or f.get('function', '').startswith('regression'):
            return True
        k = f.get('kind', '')
        st = f.get('site_text') or ''
        other_tags = [t for t in re.findall(r'// (C\d\d)\b', st) if t != pid]
        if other_tags and pid not in re.findall(r'// (C\d\d)\b', st):
            # the failed clause is the one that states a different property (C18 / C19 / C20 assertions): this property is
            # undecided by it, not violated (a concrete failing input can still establish a violation)
            return False
        if f.get('in_primary') is False:
            # a state-changing operation that the property only needs for "every reachable state": a failed result clause
            # of it says nothing about this property; anything that may concern the representation invariant does
            if 'postcondition not satisfied' in k and not any(w in st for w in INV_WORDS):
                return False
            return True
        if relv.get('site_tag'):
            if relv['site_tag'] in st or any(w in st for w in relv.get('words_any_kind', [])):
                return True
            # the tagged assertions are proved from loop invariants: a failed invariant clause that carries one of these
            # words takes the ground away from them
            return 'invariant not satisfied' in k and any(w in st for w in relv.get('site_words', []))
        if relv.get('safety'):
            from_repo = bool(f.get('site_origin')) and f['site_origin'][0] == 'C'
            if any(x in k for x in ('underflow/overflow', 'division by zero', 'decreases not satisfied', 'termination', 'bit shift')):
                return True
            if ('assertion failed' in k or 'precondition not satisfied' in k) and from_repo:
                return True
            return False
        return True
    undecided = [f for f in failures if not relevant(f)]
    failures = [f for f in failures if relevant(f)]
    for f in undecided:
        inconclusive.append(dict(f, why='a different obligation of a function in the cone failed: this property is undecided'))
    new_fail, known_hits = [], []
    for f in failures:
        k = match_known(pid, f, known)
        if k:
            known_hits.append((k, f))
        else:
            new_fail.append(f)
    concrete = None
    if new_fail or inconclusive:
        try:
            import replay_engine
            concrete = replay_engine.search(pid, new_fail + inconclusive, repo, scratch, tags=pm.get('replay_tags'))
        except Exception as ex:  # the search is best effort
            concrete = {'found': False, 'error': repr(ex)}
        others = concrete.get('counterexamples_for_other_properties') or []
        if new_fail and not concrete.get('found') and others:
            # The search did find failing inputs on the real code, but for other properties only (and none for this one among
            # the histories that do not fail for those).  A failed obligation that is this property's own statement still
            # counts; one that only takes away a lemma / invariant the proof leaned on leaves the property undecided.
            tops_all = [t for ts in (pm.get('verus') or {}).values() for t in ts]

            def tail2(n):
                return '::'.join((n or '').split('::')[-2:])

            def direct(f):
                if f.get('concrete_input') or (f.get('function') or '').startswith(('kani::', 'regression')):
                    return True
                texts = ' '.join([f.get('site_text') or ''] + [x.get('text') or '' for x in f.get('sites', [])])
                if ('// ' + pid) in texts:
                    return True
                if f.get('in_primary') is False:
                    return False
                is_top = any(tail2(t) == tail2(f.get('function')) for t in tops_all)
                k = f.get('kind', '')
                if relv.get('safety'):
                    return True
                if is_top and 'postcondition not satisfied' in k:
                    clause = ' '.join(x.get('text') or '' for x in f.get('sites', []) if 'postcondition' in (x.get('label') or ''))
                    return not any(w in clause for w in INV_WORDS) or pm.get('invariant_property', False)
                return False
            keep = [f for f in new_fail if direct(f)]
            if not keep:
                for f in new_fail:
                    inconclusive.append(dict(f, why='an obligation in the cone failed, but on the real code the change is shown to break other properties only (%s); no failing input for this property among 4000 histories: undecided'
                                             % ','.join(sorted(set(t for o in others for t in o.get('tags', []))))))
                new_fail = []
        if new_fail and not concrete.get('found'):
            # No failing input on the real code.  Obligations come in two kinds: contract-level ones (a postcondition, the
            # precondition of a call / an index / an arithmetic operation at a line of /repo code, one of the crate's own
            # assertions, a Kani or bounded check, an assertion tagged with this property) and proof-internal ones (an assert,
            # a lemma call or a loop-invariant clause of the overlay, written for the previous text of the function).  When
            # only proof-internal obligations of an edited function fail, the proof is out of date - that alone does not say the
            # code is wrong: undecided.
            def proof_internal(f):
                if f.get('concrete_input') or (f.get('function') or '').startswith(('kani::', 'regression', 'panic injection')):
                    return False
                texts = ' '.join([f.get('site_text') or ''] + [x.get('text') or '' for x in f.get('sites', [])])
                if ('// ' + pid) in texts:
                    return False
                k = f.get('kind', '')
                if 'invariant not satisfied' in k:
                    return True
                if 'postcondition not satisfied' in k:
                    return False
                so = f.get('site_origin') or []
                return bool(so) and so[0] == 'A'
            def fits(f):
                # the annotations of a function into which the change inserted statements were not written for those statements
                if f.get('concrete_input') or (f.get('function') or '').startswith(('kani::', 'regression', 'panic injection')):
                    return True
                return not f.get('restructured')
            if not any(fits(f) for f in new_fail):
                for f in new_fail:
                    inconclusive.append(dict(f, why='the change inserted %s statement line(s) into this function, so its annotations (written for the previous text) may simply '
                                                    'no longer fit; no failing input was found on the real code: undecided' % f.get('restructured')))
                new_fail = []
            if new_fail and all(proof_internal(f) for f in new_fail):
                for f in new_fail:
                    inconclusive.append(dict(f, why='the proof of the edited function no longer goes through (only proof-internal obligations failed); '
                                                    'no contract-level obligation failed and no failing input was found on the real code: undecided'))
                new_fail = []
        if concrete.get('found') and not new_fail:
            # an undecided obligation plus a concrete failing input for this property on the real code: a violation
            new_fail = [dict(x) for x in inconclusive if x.get('function')][:3] or [{'function': None, 'kind': 'undecided obligation', 'site_text': ''}]
            for x in new_fail:
                x['note'] = 'the obligation is undecided by the verifier (%s); the violation is established by the concrete failing input' % x.get('why')
    cross = None
    if tier == 'thorough' and not new_fail and not inconclusive:
        # thorough: the executable contracts are cross-checked against the real code on pseudo-random histories (this is also
        # the reachability witness for the public preconditions); labelled exploration, never counted as proved
        try:
            import replay_engine
            recs = [{'unit': u['unit']} for u in units]
            cross = replay_engine.search(pid, recs, repo, scratch, seeds=200000 + seed, steps=120, tags=pm.get('replay_tags'))
        except Exception as ex:
            cross = {'found': False, 'error': repr(ex)}
        if cross.get('found'):
            concrete = cross
            new_fail = [{'function': None, 'kind': 'executable contract violated on the real code (exploration cross-check)', 'site_text': cross.get('input', '')[:200]}]
    obligations = [o for u in units for o in u['obligations']] + [o for e in extra for o in e.get('obligations', [])]
    discharged = sum(1 for o in obligations if o['ok'])
    wall = time.time() - t0
    ev = {
        'property_id': pid, 'tier': tier, 'seed': seed, 'level': pm.get('level', 'proof'),
        'coverage': {
            'obligations': len(obligations), 'discharged': discharged,
            'checker_cmd': ' ; '.join(checker_cmds),
            'trusted_base': pm.get('trusted_base', []) + ['Verus 0.2026.09.13 + z3', 'rustc', 'extractor transformations T0-T25 (counted below)'],
            'samples': [{'obligation': o['function'], 'mode': o['mode'], 'discharged': o['ok'], 'smt_ms': o.get('smt_ms')} for o in obligations[:40]],
            'functions_under_contract': sorted(set(x for u in units for x in u['functions_under_contract'])),
            'backends': sorted(set(['z3 via Verus'] * bool(units) + [b for e in extra for b in e.get('backends', [])])),
            'solver_ms': sum((o.get('smt_ms') or 0) for o in obligations),
            'extraction': [{'unit': u['unit'], 'files': u['extract']['files'], 'transform_counts': u['extract']['transform_counts'],
                            'non_ghost_annotation_lines_in_repo_fn_bodies': u.get('exec_annotation_lines'),
                            'new_readonly_functions_left_out': u['extract'].get('new_readonly_fns_dropped', [])} for u in units],
            'vacuity_probes': vac,
            'bounded_components': [b for e in extra for b in e.get('bounded_components', [])],
            'exploration_cross_check': cross,
            'explanation': pm.get('explanation', ''),
            'unit_wall_s': [{'unit': u['unit'], 'verus_s': round(u['t_verus'], 2), 'extract_s': round(u['t_extract'], 2)} for u in units],
            'engine_results': [{k: v for k, v in e.items() if k not in ('failures', 'inconclusive', 'obligations')} for e in extra],
        },
        'assumptions': sorted(set(pm.get('assumptions', []) + ['%s: %s' % (a['kind'], a['name']) for u in units for a in u['assumptions']])),
        'wall_s': round(wall, 2),
        'violations': len(new_fail),
    }
    evdir = os.path.join(VERIF, 'evidence') if os.path.realpath(repo) == '/repo' else os.path.join(scratch + '.evidence')
    os.makedirs(evdir, exist_ok=True)
    rc = 0
    for k, f in known_hits:
        print('KNOWN-FINDING: property=%s %s' % (pid, k.get('what', '')))
    if new_fail:
        os.makedirs(os.path.join(VERIF, 'replays'), exist_ok=True)
        rp = os.path.join(VERIF, 'replays', '%s.%d.json' % (pid, int(time.time())))
        with open(rp, 'w') as fh:
            json.dump({'property': pid, 'failed_obligations': new_fail, 'failing_input': concrete,
                       'note': 'obligation(s) generated from the current /repo source that Verus / Kani could not discharge'}, fh, indent=1)
        tail = '' if (concrete and concrete.get('found')) else ' no-failing-input-found'
        for f in new_fail[:3]:
            so = f.get('site_origin') or []
            loc = '%s:%s' % (so[1], so[2]) if len(so) == 3 and so[0] == 'C' else ''
            print('  failed obligation: %s in %s [%s] %s' % (f.get('kind'), f.get('function'), loc, (f.get('site_text') or '')[:100]))
        if concrete and concrete.get('found'):
            print('  failing input (real code): %s' % str(concrete.get('input'))[:600])
        print('VIOLATION property=%s replay=%s%s' % (pid, rp, tail))
        rc = 1
    elif inconclusive:
        for x in inconclusive[:5]:
            print('INCONCLUSIVE property=%s why=%s %s' % (pid, x.get('why'), str(x.get('function') or x.get('detail') or '')[:300]))
        ev['coverage']['inconclusive'] = [{k: (v if k != 'rendered' else v[:600]) for k, v in x.items() if k != 'sites'} for x in inconclusive[:10]]
        rc = 2
    else:
        if discharged != len(obligations) or len(obligations) == 0:
            print('INCONCLUSIVE property=%s obligations=%d discharged=%d' % (pid, len(obligations), discharged))
            rc = 2
    with open(os.path.join(evdir, pid + '.json'), 'w') as fh:
        json.dump(ev, fh, indent=1)
    if rc == 0:
        print('OK property=%s obligations=%d discharged=%d wall=%.1fs' % (pid, len(obligations), discharged, wall))
    return rc


def run_engine(eng, pid, tier, repo, scratch, seed):
    kind = eng['kind']
    if kind == 'kani':
        import kani_engine
        return kani_engine.run(eng, pid, tier, repo, scratch, seed)
    if kind == 'replay':
        import replay_engine
        return replay_engine.run(eng, pid, tier, repo, scratch, seed)
    return {'inconclusive': [{'why': 'unknown-engine', 'detail': kind}]}


def find_failing_input(pid, fails, repo, scratch):
    try:
        import replay_engine
    except Exception:
        return {'found': False, 'why': 'no replay driver'}
    return replay_engine.search(pid, fails, repo, scratch)


def replay(pid, path, repo):
    d = F.load_json(path)
    fi = d.get('failing_input')
    if fi and fi.get('found'):
        import replay_engine
        return replay_engine.rerun(pid, fi, repo, path)
    print('replay file names obligation(s) only (no concrete input): re-running the check')
    scratch = '/var/tmp/itree-verif.replay.%d' % os.getpid()
    os.makedirs(scratch, exist_ok=True)
    try:
        return check_property(pid, 'quick', repo, scratch, 0)
    finally:
        import shutil
        shutil.rmtree(scratch, ignore_errors=True)
