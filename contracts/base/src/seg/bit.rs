pub(super) trait BitOp {
    fn fill(start: u32, end: u32) -> u64;
}

impl BitOp for u64 {
    #[inline]
    fn fill(start: u32, end: u32) -> u64 {
        ((1u64 << (end - start + 1)) - 1) << start
    }
}
#[cfg(test)]
mod tests {
    use crate::seg::bit::BitOp;

    #[test]
    fn test_00() {
        assert_eq!(u64::fill(0, 2), 0b111);
        assert_eq!(u64::fill(1, 2), 0b110);
        assert_eq!(u64::fill(2, 2), 0b100);
    }
}