// Replay driver: runs the *executable form* of contracts on the real code of /repo (a scratch copy with widened
// visibility).  It never decides a property; it is (a) the labelled bounded stand-in for KeyExpList::clear_expired,
// whose body is outside Verus' reach, (b) the search for a concrete failing input behind a failed obligation,
// (c) the reachability witness for the public preconditions.
use i_tree::key::entity::Entity;
use i_tree::key::exp::KeyExpCollection;
use i_tree::key::list::KeyExpList;
use i_tree::key::tree::KeyExpTree;
use i_tree::key::array::IntoArray;
use i_tree::map::sort::MapCollection;
use i_tree::map::tree::MapTree;
use i_tree::set::sort::SetCollection;
use i_tree::set::tree::SetTree;
use i_tree::set::list::SetList;
use i_tree::ExpiredKey;
use i_tree::EMPTY_REF;
use std::cmp::Ordering;

#[derive(Clone, Copy, Debug)]
struct KK(i32, i32); // (key, expiration); ordered by key only
impl PartialEq for KK { fn eq(&self, o: &Self) -> bool { self.0 == o.0 } }
impl Eq for KK {}
impl PartialOrd for KK { fn partial_cmp(&self, o: &Self) -> Option<Ordering> { Some(self.cmp(o)) } }
// C20 observation: while an operation at time NOW runs, the ordering must only see the probe / new key (marked PROBE_EXP or
// exempted by key) and stored keys that are still live (exp > NOW)
const PROBE_EXP: i32 = i32::MAX;
thread_local! { static NOW: std::cell::Cell<(i32, i32)> = std::cell::Cell::new((i32::MIN, i32::MIN)); static SAW_EXPIRED: std::cell::Cell<(i32, i32)> = std::cell::Cell::new((i32::MIN, 0)); }
fn watch(now: i32, exempt_key: i32) { NOW.with(|n| n.set((now, exempt_key))); }
fn unwatch() -> Option<(i32, i32)> { NOW.with(|n| n.set((i32::MIN, i32::MIN))); let v = SAW_EXPIRED.with(|s| s.replace((i32::MIN, 0))); if v.0 == i32::MIN { None } else { Some(v) } }
// a probe carries an expiration of its own, which must not matter (keys compare by key only; C06 / C01 speak about the stored
// entry's expiration): probes are marked PROBE_EXP (never expires) or by a value <= PROBE_OLD (long expired)
const PROBE_OLD: i32 = -1_000_000;
fn is_probe(x: &KK) -> bool { x.1 == PROBE_EXP || x.1 <= PROBE_OLD }
fn pexp(sel: u64) -> i32 { if sel % 3 == 0 { PROBE_OLD - (sel % 5) as i32 } else { PROBE_EXP } }
fn observe(x: &KK) { NOW.with(|n| { let (now, ex) = n.get(); if now != i32::MIN && !is_probe(x) && x.0 != ex && x.1 <= now { SAW_EXPIRED.with(|s| s.set((x.0, x.1))); } }); }
impl Ord for KK { fn cmp(&self, o: &Self) -> Ordering { cb_fuse(); observe(self); observe(o); self.0.cmp(&o.0) } }
// fault injection: when armed, the n-th call of the expiration accessor panics (C18)
thread_local! { static FUSE: std::cell::Cell<i64> = std::cell::Cell::new(-1); }
fn arm(n: i64) { FUSE.with(|f| f.set(n)); }
impl ExpiredKey<i32> for KK {
    fn expiration(&self) -> i32 {
        FUSE.with(|f| { let v = f.get(); if v == 0 { f.set(-1); panic!("injected panic in expiration()"); } if v > 0 { f.set(v - 1); } });
        cb_fuse();
        self.1
    }
}
// second fuse: counts every user callback (ordering, key accessor, expiration accessor) - panic-injection exploration (C18)
thread_local! { static CBFUSE: std::cell::Cell<i64> = std::cell::Cell::new(-1); }
fn cb_arm(n: i64) { CBFUSE.with(|f| f.set(n)); }
fn cb_fuse() { CBFUSE.with(|f| { let v = f.get(); if v == 0 { f.set(-1); panic!("injected panic in a user callback"); } if v > 0 { f.set(v - 1); } }); }

// ---------------------------------------------------------------------------------------------------------------
// bounded stand-in: KeyExpList::clear_expired against its contract
//   ensures  buffer' == [e in buffer | e.exp > time]  and  min_exp' <= every remaining expiration  (given the invariant
//   min_exp <= every stored expiration)
fn clear_expired_bounded(max_n: usize, tpoints: i32) -> (u64, u64, Option<String>) {
    let mut cases: u64 = 0;
    let mut nontrivial: u64 = 0;
    for n in 0..=max_n {
        let mut exps = vec![0i32; n];
        loop {
            let min_e = exps.iter().cloned().min();
            let lower_bounds: Vec<i32> = match min_e { Some(m) => (0..=m).collect(), None => vec![0, tpoints - 1, i32::MAX] };
            for time in 0..tpoints {
                for &lb in &lower_bounds {
                    let mut l = KeyExpList::<KK, i32, i32>::new(4);
                    for (k, &e) in exps.iter().enumerate() {
                        l.buffer.push(Entity::new(KK(k as i32, e), 100 + k as i32));
                    }
                    l.min_exp = lb;
                    l.clear_expired(time);
                    cases += 1;
                    let want: Vec<(i32, i32)> = exps.iter().enumerate().filter(|(_, &e)| e > time).map(|(k, &e)| (k as i32, e)).collect();
                    let got: Vec<(i32, i32)> = l.buffer.iter().map(|e| (e.key.0, e.key.1)).collect();
                    if want.len() != exps.len() { nontrivial += 1; }
                    let vals_ok = l.buffer.iter().all(|e| e.val == 100 + e.key.0);
                    let lb_ok = l.buffer.iter().all(|e| l.min_exp <= e.key.1);
                    if want != got || !vals_ok || !lb_ok {
                        return (cases, nontrivial, Some(format!("exps={:?} min_exp={} time={} -> buffer={:?} min_exp'={} expected={:?}", exps, lb, time, got, l.min_exp, want)));
                    }
                }
            }
            // next assignment of expirations
            let mut i = 0;
            loop {
                if i == n { break; }
                exps[i] += 1;
                if exps[i] < tpoints { break; }
                exps[i] = 0;
                i += 1;
            }
            if i == n { break; }
        }
    }
    (cases, nontrivial, None)
}

// bounded stand-in (C18): a panic of the user's expiration accessor at any call index inside clear_expired leaves the list
// valid and un-torn: the buffer still holds every live entry (in order, nothing duplicated), and the cached minimum is still a
// lower bound of the stored expirations (so nothing expired can be observed later through the early-out)
fn clear_expired_panic_bounded(max_n: usize, tpoints: i32) -> (u64, u64, Option<String>) {
    let mut cases: u64 = 0;
    let mut injected: u64 = 0;
    std::panic::set_hook(Box::new(|_| {}));
    for n in 1..=max_n {
        let mut exps = vec![0i32; n];
        loop {
            let min_e = *exps.iter().min().unwrap();
            for time in 0..tpoints {
                for lb in [0, min_e] {
                    for fuse in 0..(n as i64 + 1) {
                        let mut l = KeyExpList::<KK, i32, i32>::new(4);
                        for (k, &e) in exps.iter().enumerate() { l.buffer.push(Entity::new(KK(k as i32, e), 100 + k as i32)); }
                        l.min_exp = lb;
                        arm(fuse);
                        let r = std::panic::catch_unwind(std::panic::AssertUnwindSafe(|| l.clear_expired(time)));
                        arm(-1);
                        cases += 1;
                        if r.is_err() { injected += 1; }
                        let got: Vec<(i32, i32)> = l.buffer.iter().map(|e| (e.key.0, e.key.1)).collect();
                        let sorted = got.windows(2).all(|w| w[0].0 < w[1].0);
                        let all_live_kept = exps.iter().enumerate().filter(|(_, &e)| e > time).all(|(k, &e)| got.contains(&(k as i32, e)));
                        let only_original = got.iter().all(|(k, e)| (*k as usize) < n && exps[*k as usize] == *e);
                        let lb_ok = l.buffer.iter().all(|e| l.min_exp <= e.key.1);
                        if !(sorted && all_live_kept && only_original && lb_ok) {
                            std::panic::take_hook();
                            return (cases, injected, Some(format!("exps={:?} min_exp={} time={} panic at expiration() call #{} -> buffer={:?} min_exp'={} (sorted={} live kept={} lower bound ok={})", exps, lb, time, fuse, got, l.min_exp, sorted, all_live_kept, lb_ok)));
                        }
                    }
                }
            }
            let mut i = 0;
            loop { if i == n { break; } exps[i] += 1; if exps[i] < tpoints { break; } exps[i] = 0; i += 1; }
            if i == n { break; }
        }
    }
    let _ = std::panic::take_hook();
    (cases, injected, None)
}

// ---------------------------------------------------------------------------------------------------------------
// reproductions of the defects found on the unchanged tree (kept as regression witnesses: they must pass on the fixed tree)
fn finding(which: &str) -> Result<String, String> {
    match which {
        "F1" => {
            let mut t = KeyExpTree::<KK, i32, i32>::new(8); let mut l = KeyExpList::<KK, i32, i32>::new(8);
            for (k, e) in [(1, 5), (2, 7), (3, 9)] { t.insert(KK(k, e), k, 0); l.insert(KK(k, e), k, 0); }
            let a = t.into_ordered_vec(7); let b = l.into_ordered_vec(7);
            let msg = format!("keys (1,exp5),(2,exp7),(3,exp9); into_ordered_vec(7): tree={:?} list={:?} expected=[3]", a, b);
            if a == vec![3] && b == vec![3] { Ok(msg) } else { Err(msg) }
        }
        "F2" => {
            let mut t = KeyExpTree::<KK, i32, i32>::new(8);
            for (k, e) in [(2, 5), (1, 100), (3, 5)] { t.insert(KK(k, e), k, 0); }
            let a = t.into_ordered_vec(50);
            let msg = format!("(2,exp5),(1,exp100),(3,exp5); into_ordered_vec(50): tree={:?} expected=[1]", a);
            if a == vec![1] { Ok(msg) } else { Err(msg) }
        }
        "F3" => {
            let mut t = KeyExpTree::<KK, i32, i32>::new(8);
            for k in [2, 1, 3] { t.insert(KK(k, 100), k * 10, 0); }
            let r = t.get_value(0, KK(1, 0));
            let msg = format!("insert 2,1,3; get_value(0, 1) = {:?} expected Some(10)", r);
            if r == Some(10) { Ok(msg) } else { Err(msg) }
        }
        "F4" => {
            let mut s = SetTree::<i32, i32>::new(8);
            s.insert(7);
            let h = s.first_index_less(&7);
            let a = s.index_after(h); let b = s.index_before(h);
            let msg = format!("one-entry set: index_after(h)={} index_before(h)={} expected EMPTY_REF both", a, b);
            if a == EMPTY_REF && b == EMPTY_REF { Ok(msg) } else { Err(msg) }
        }
        "F5" => {
            let mut l = SetList::<i32>::new(4);
            SetCollection::<i32, i32>::insert(&mut l, 7);
            let a = SetCollection::<i32, i32>::index_after(&l, 0);
            let b = SetCollection::<i32, i32>::index_before(&l, 0);
            let msg = format!("one-entry SetList: index_after(0)={} index_before(0)={} expected EMPTY_REF both", a, b);
            if a == EMPTY_REF && b == EMPTY_REF { Ok(msg) } else { Err(msg) }
        }
        "F6" => {
            let mut t = KeyExpTree::<KK, i32, i32>::new(8);
            for k in 0..1000 { t.insert(KK(k, 1000000), k, 0); }
            let v = t.into_ordered_vec(0);
            let msg = format!("1000 ascending keys: len={} capacity={} (bound 2*len+8)", v.len(), v.capacity());
            if v.capacity() <= 2 * v.len() + 8 { Ok(msg) } else { Err(msg) }
        }
        "F7" => {
            use i_tree::seg::exp::{SegExpCollection, SegRange};
            use i_tree::seg::tree::SegExpTree;
            let r = std::panic::catch_unwind(|| {
                let mut out = vec![];
                for (lo, hi) in [(i64::MIN, i64::MAX), (-(1i64 << 62) - 5, (1i64 << 62) + 5)] {
                    match SegExpTree::<i64, i32, XV>::new(SegRange { min: lo, max: hi }) {
                        None => out.push(format!("new([{},{}]) = None", lo, hi)),
                        Some(mut t) => {
                            t.insert_by_range(SegRange { min: -5, max: 5 }, XV { id: 1, exp: 10 });
                            t.insert_by_range(SegRange { min: hi - 3, max: hi }, XV { id: 2, exp: 10 });
                            let mut got: Vec<i32> = t.iter_by_range(SegRange { min: 0, max: hi }, 0).map(|v| v.id).collect(); got.sort();
                            let got2: Vec<i32> = t.iter_by_range(SegRange { min: lo, max: lo + 3 }, 0).map(|v| v.id).collect();
                            out.push(format!("[{},{}]: query([0,hi]) = {:?}, query([lo,lo+3]) = {:?}", lo, hi, got, got2));
                            if got != vec![1, 2] || !got2.is_empty() { out.push("WRONG".to_string()); }
                        }
                    }
                }
                out
            });
            match r {
                Err(_) => Err("SegExpTree::new / insert / query on an i64 domain of more than i64::MAX points panicked (arithmetic overflow)".to_string()),
                Ok(out) => { let msg = out.join("; "); if msg.contains("None") || msg.contains("WRONG") { Err(msg) } else { Ok(msg) } }
            }
        }
        _ => Err("unknown finding".to_string()),
    }
}


// ---------------------------------------------------------------------------------------------------------------
// failing-input search: deterministic pseudo-random histories over small universes on the REAL collections, each step
// checked against a reference model and against the executable form of the representation invariant.  Used only to turn a
// failed / undecided obligation into a concrete failing input; it never decides a property.
static FOCUS: std::sync::Mutex<Vec<String>> = std::sync::Mutex::new(Vec::new());
static PAST_INV: std::sync::atomic::AtomicBool = std::sync::atomic::AtomicBool::new(false);
static HIST: std::sync::Mutex<String> = std::sync::Mutex::new(String::new());
static PROGRESS: std::sync::atomic::AtomicU64 = std::sync::atomic::AtomicU64::new(0);
fn now_s() -> u64 { std::time::SystemTime::now().duration_since(std::time::UNIX_EPOCH).map(|d| d.as_secs()).unwrap_or(0) }
fn note(h: &str) { PROGRESS.store(now_s(), std::sync::atomic::Ordering::Relaxed); if let Ok(mut g) = HIST.lock() { g.clear(); g.push_str(h); } }
// a history step of the real code that does not return (C10: non-terminating loop, e.g. a cyclic arena) is a failing input too:
// the watchdog reports the history recorded so far and ends the process
fn watchdog(limit_s: u64) {
    PROGRESS.store(now_s(), std::sync::atomic::Ordering::Relaxed);
    std::thread::spawn(move || loop {
        std::thread::sleep(std::time::Duration::from_millis(500));
        let last = PROGRESS.load(std::sync::atomic::Ordering::Relaxed);
        if now_s() > last + limit_s {
            let h = HIST.lock().map(|g| g.clone()).unwrap_or_default();
            let msg = format!("[C10] {}-> the real code did not return from this step within {} s (non-terminating loop)", h, limit_s).replace('\n', " ");
            println!("{{\"ok\": false, \"counterexample\": {:?}}}", msg);
            use std::io::Write; let _ = std::io::stdout().flush();
            std::process::exit(1);
        }
    });
}

macro_rules! h { ($hist:expr, $($arg:tt)*) => { { $hist.push_str(&format!($($arg)*)); note(&$hist); } } }

struct Rng(u64);
impl Rng {
    fn next(&mut self) -> u64 { self.0 ^= self.0 << 13; self.0 ^= self.0 >> 7; self.0 ^= self.0 << 17; self.0 }
    fn below(&mut self, n: u64) -> u64 { self.next() % n }
}

// executable representation invariant of an arena red-black tree: links consistent, BST order, red-black colours with
// equal black heights, sentinel unlinked, every slot exactly one of sentinel / in tree / free
// which property a broken executable invariant speaks about: the shape of the tree (links, order, colours: C02), the slot
// accounting (free list, lost slots: C11), or both (a slot reached twice, the sentinel linked into the tree)
fn inv_tags(e: &str) -> &'static str { if e.starts_with("slots: ") { "C11" } else if e.starts_with("both: ") { "C02,C11" } else { "C02" } }
fn wf_exec(n_slots: usize, root: u32, unused: &[u32],
           node: &dyn Fn(u32) -> (u32, u32, u32, bool), key: &dyn Fn(u32) -> i64) -> Result<usize, String> {
    let mut in_tree = vec![false; n_slots];
    let mut count = 0usize;
    // iterative DFS with (index, lo, hi) bounds; returns black height via explicit post-order
    fn walk(i: u32, parent: u32, lo: i64, hi: i64, n_slots: usize, in_tree: &mut Vec<bool>, count: &mut usize,
            node: &dyn Fn(u32) -> (u32, u32, u32, bool), key: &dyn Fn(u32) -> i64, depth: usize) -> Result<(usize, bool), String> {
        if i == EMPTY_REF { return Ok((0, false)); }
        if i as usize >= n_slots { return Err(format!("link {} out of the arena", i)); }
        if i == 0 { return Err("both: sentinel slot 0 is linked into the tree".to_string()); }
        if in_tree[i as usize] { return Err(format!("both: slot {} reached twice", i)); }
        if depth > 200 { return Err("path longer than 200".to_string()); }
        in_tree[i as usize] = true; *count += 1;
        let (p, l, r, red) = node(i);
        if p != parent { return Err(format!("slot {}: parent link {} but reached from {}", i, p, parent)); }
        let k = key(i);
        if !(lo < k && k < hi) { return Err(format!("slot {}: key {} violates the search order ({}, {})", i, k, lo, hi)); }
        let (bl, lred) = walk(l, i, lo, k, n_slots, in_tree, count, node, key, depth + 1)?;
        let (br, rred) = walk(r, i, k, hi, n_slots, in_tree, count, node, key, depth + 1)?;
        if bl != br { return Err(format!("slot {}: black heights {} / {}", i, bl, br)); }
        if red && (lred || rred) { return Err(format!("slot {}: red with a red child", i)); }
        Ok((bl + if red { 0 } else { 1 }, red))
    }
    walk(root, EMPTY_REF, i64::MIN, i64::MAX, n_slots, &mut in_tree, &mut count, node, key, 0)?;
    let mut free = vec![false; n_slots];
    for &u in unused {
        if u == 0 || u as usize >= n_slots { return Err(format!("slots: free list holds {}", u)); }
        if free[u as usize] { return Err(format!("slots: slot {} is on the free list twice", u)); }
        if in_tree[u as usize] { return Err(format!("slots: slot {} is free and in the tree", u)); }
        free[u as usize] = true;
    }
    if count + unused.len() + 1 != n_slots { return Err(format!("slots: {} slots: {} in tree + {} free + sentinel (a slot was lost)", n_slots, count, unused.len())); }
    // height bound 2*log2(n+1)+1
    Ok(count)
}

fn key_tree_wf(t: &KeyExpTree<KK, i32, i32>) -> Result<usize, String> {
    use i_tree::key::node::Color;
    let b = &t.store.buffer;
    wf_exec(b.len(), t.root, &t.store.unused, &|i| { let n = &b[i as usize]; (n.parent, n.left, n.right, n.color == Color::Red) }, &|i| b[i as usize].entity.key.0 as i64)
}
fn map_tree_wf<V: Clone + Default>(t: &MapTree<i32, V>) -> Result<usize, String> {
    use i_tree::map::node::Color;
    let b = &t.store.buffer;
    wf_exec(b.len(), t.root, &t.store.unused, &|i| { let n = &b[i as usize]; (n.parent, n.left, n.right, n.color == Color::Red) }, &|i| b[i as usize].entity.key as i64)
}
// values that own heap data (C04 / C05: "non-trivially cloneable" values; `needs_drop::<V>()` is true): `tag` must always spell
// the payload - a value that was reset, moved out, duplicated into another entry or torn shows up as a mismatch
#[derive(Clone, Default, Debug, PartialEq)]
struct SV { k: i32, payload: i32, tag: String }
fn sv(k: i32, payload: i32) -> SV { SV { k, payload, tag: format!("p{}k{}", payload, k) } }
impl SV { fn get(&self) -> i32 { if self.tag == format!("p{}k{}", self.payload, self.k) { self.payload } else { -999_000 - self.payload.rem_euclid(1000) } } }
impl i_tree::set::sort::KeyValue<i32> for SV { fn key(&self) -> &i32 { &self.k } }
#[derive(Clone, Default, Debug, PartialEq)]
struct HV { v: i32, tag: String }
fn hv(v: i32) -> HV { HV { v, tag: format!("v{}", v) } }
impl HV { fn get(&self) -> i32 { if self.tag == format!("v{}", self.v) { self.v } else { -999_000 - self.v.rem_euclid(1000) } } }
fn set_tree_wf(t: &SetTree<i32, SV>) -> Result<usize, String> {
    use i_tree::set::node::Color;
    let b = &t.store.buffer;
    wf_exec(b.len(), t.root, &t.store.unused, &|i| { let n = &b[i as usize]; (n.parent, n.left, n.right, n.color == Color::Red) }, &|i| b[i as usize].value.k as i64)
}

fn explore_key(seed: u64, steps: usize, nkeys: i32) -> Result<(), String> {
    let mut rng = Rng(seed.wrapping_mul(0x9E3779B97F4A7C15) | 1);
    let mut t = KeyExpTree::<KK, i32, i32>::new(if seed % 3 == 0 { 0 } else { 9 });
    let mut l = KeyExpList::<KK, i32, i32>::new(0);
    let mut model: Vec<(i32, i32, i32)> = vec![]; // (key, exp, val) of everything inserted since the last clear
    let mut time = 0i32;
    let mut hist = String::new();
    let mut inv_fail: Option<String> = None;
    let mut peak = 0usize;
    let mut vseq = 1000;
    for _ in 0..steps {
        let op = rng.below(12);
        if rng.below(3) == 0 { time = time.saturating_add(rng.below(3) as i32); }
        if seed % 5 == 2 && rng.below(40) == 0 { time = i32::MAX; } // the end of time: only the probe / nothing is live
        let k = rng.below(nkeys as u64) as i32;
        let live = |m: &Vec<(i32, i32, i32)>, t: i32| -> Vec<(i32, i32, i32)> { let mut v: Vec<_> = m.iter().cloned().filter(|e| e.1 > t).collect(); v.sort(); v };
        let lv = live(&model, time);
        match op {
            0..=3 => {
                if lv.iter().any(|e| e.0 == k) { continue; }
                let e = if seed % 5 == 2 && rng.below(4) == 0 { i32::MAX } else { time.saturating_add(rng.below(5) as i32) };
                vseq += 1;
                h!(hist, "insert(k={},exp={},val={},t={}); ", k, e, vseq, time);
                watch(time, k);
                t.insert(KK(k, e), vseq, time);
                if let Some(x) = unwatch() { return Err(format!("[C20] {}-> the tree handed the expired key ({},exp {}) to the ordering at time {}", hist, x.0, x.1, time)); }
                watch(time, k);
                l.insert(KK(k, e), vseq, time);
                if let Some(x) = unwatch() { return Err(format!("[C20] {}-> the list handed the expired key ({},exp {}) to the ordering at time {}", hist, x.0, x.1, time)); }
                model.retain(|x| !(x.0 == k)); // an expired equal key is superseded
                model.push((k, e, vseq));
            }
            4 | 5 => {
                let want = lv.iter().filter(|e| e.0 < k).last().map(|e| e.2).unwrap_or(-1);
                let pe = pexp(rng.below(6)); h!(hist, "first_less(t={},k={}{}); ", time, k, if pe == PROBE_EXP { String::new() } else { format!(",probe-exp={}", pe) });
                watch(time, i32::MIN); let a = t.first_less(time, -1, KK(k, pe)); let seen_a = unwatch();
                watch(time, i32::MIN); let b = l.first_less(time, -1, KK(k, pe)); let seen_b = unwatch();
                if a != want { return Err(format!("[C01{}] {}-> tree {} expected {}", if seen_a.is_some() { ",C20" } else { "" }, hist, a, want)); }
                if let Some(x) = seen_a { return Err(format!("[C20] {}-> the tree handed the expired key ({},exp {}) to the caller's comparison at time {}", hist, x.0, x.1, time)); }
                if b != want { return Err(format!("[C13{}] {}-> list {} expected {}", if seen_b.is_some() { ",C20" } else { "" }, hist, b, want)); }
                if let Some(x) = seen_b { return Err(format!("[C20] {}-> the list handed the expired key ({},exp {}) to the caller's comparison at time {}", hist, x.0, x.1, time)); }
            }
            6 | 7 => {
                let want = lv.iter().filter(|e| e.0 <= k).last().map(|e| e.2).unwrap_or(-1);
                let pe = pexp(rng.below(6)); h!(hist, "first_less_or_equal(t={},k={}{}); ", time, k, if pe == PROBE_EXP { String::new() } else { format!(",probe-exp={}", pe) });
                watch(time, i32::MIN); let a = t.first_less_or_equal(time, -1, KK(k, pe)); let seen_a = unwatch();
                watch(time, i32::MIN); let b = l.first_less_or_equal(time, -1, KK(k, pe)); let seen_b = unwatch();
                if a != want { return Err(format!("[C01{}] {}-> tree {} expected {}", if seen_a.is_some() { ",C20" } else { "" }, hist, a, want)); }
                if let Some(x) = seen_a { return Err(format!("[C20] {}-> the tree handed the expired key ({},exp {}) to the caller's comparison at time {}", hist, x.0, x.1, time)); }
                if b != want { return Err(format!("[C13{}] {}-> list {} expected {}", if seen_b.is_some() { ",C20" } else { "" }, hist, b, want)); }
                if let Some(x) = seen_b { return Err(format!("[C20] {}-> the list handed the expired key ({},exp {}) to the caller's comparison at time {}", hist, x.0, x.1, time)); }
                watch(time, i32::MIN); let a2 = t.first_less_or_equal_by(time, -1, |x: KK| { observe(&x); x.0.cmp(&k) }); let seen_a2 = unwatch();
                watch(time, i32::MIN); let b2 = l.first_less_or_equal_by(time, -1, |x: KK| { observe(&x); x.0.cmp(&k) }); let seen_b2 = unwatch();
                if a2 != want { return Err(format!("[C01{}] {}-> tree first_less_or_equal_by {} expected {}", if seen_a2.is_some() { ",C20" } else { "" }, hist, a2, want)); }
                if let Some(x) = seen_a2 { return Err(format!("[C20] {}-> the tree handed the expired key ({},exp {}) to the caller's comparison at time {}", hist, x.0, x.1, time)); }
                if b2 != want { return Err(format!("[C13{}] {}-> list first_less_or_equal_by {} expected {}", if seen_b2.is_some() { ",C20" } else { "" }, hist, b2, want)); }
                if let Some(x) = seen_b2 { return Err(format!("[C20] {}-> the list handed the expired key ({},exp {}) to the caller's comparison at time {}", hist, x.0, x.1, time)); }
            }
            8 | 9 => {
                let want = lv.iter().find(|e| e.0 == k).map(|e| e.2);
                let pe = pexp(rng.below(6)); h!(hist, "get_value(t={},k={}{}); ", time, k, if pe == PROBE_EXP { String::new() } else { format!(",probe-exp={}", pe) });
                watch(time, i32::MIN); let a = t.get_value(time, KK(k, pe)); let seen_a = unwatch();
                watch(time, i32::MIN); let b = l.get_value(time, KK(k, pe)); let seen_b = unwatch();
                if a != want { return Err(format!("[C06{}] {}-> tree {:?} expected {:?}", if seen_a.is_some() { ",C20" } else { "" }, hist, a, want)); }
                if let Some(x) = seen_a { return Err(format!("[C20] {}-> the tree handed the expired key ({},exp {}) to the caller's comparison at time {}", hist, x.0, x.1, time)); }
                if b != want { return Err(format!("[C13{}] {}-> list {:?} expected {:?}", if seen_b.is_some() { ",C20" } else { "" }, hist, b, want)); }
                if let Some(x) = seen_b { return Err(format!("[C20] {}-> the list handed the expired key ({},exp {}) to the caller's comparison at time {}", hist, x.0, x.1, time)); }
            }
            10 => {
                if rng.below(4) != 0 { continue; }
                h!(hist, "clear(); ");
                t.clear(); l.clear(); model.clear(); peak = 0;
                if rng.below(2) == 0 { time = 0; }
            }
            _ => {
                h!(hist, "is_empty(t={}); ", time);
                if !lv.is_empty() && t.is_empty() { return Err(format!("[C01] {}-> tree reports empty with live entries", hist)); }
            }
        }
        match key_tree_wf(&t) {
            Err(e) => { let m = format!("[{}{}] {}-> invariant broken: {}", inv_tags(&e), if hist.ends_with("clear(); ") { ",C12" } else { "" }, hist, e); if PAST_INV.load(std::sync::atomic::Ordering::Relaxed) { if inv_fail.is_none() { inv_fail = Some(m); } } else { return Err(m); } }
            Ok(n) => {
                peak = peak.max(n).max(model.len());
                if t.store.buffer.len() > 4 * peak + 64 { return Err(format!("[C11] {}-> {} slots allocated for a peak of {} entries", hist, t.store.buffer.len(), peak)); }
            }
        }
    }
    let want: Vec<i32> = { let mut v: Vec<_> = model.iter().cloned().filter(|e| e.1 > time).collect(); v.sort(); v.iter().map(|e| e.2).collect() };
    h!(hist, "into_ordered_vec(t={}); ", time);
    let stored = key_tree_wf(&t).unwrap_or(model.len()); // entries physically stored when the export starts
    let a = t.into_ordered_vec(time); let b = l.into_ordered_vec(time);
    if a != want { return Err(format!("[C07] {}-> tree {:?} expected {:?}", hist, a, want)); }
    if b != want { return Err(format!("[C07,C13] {}-> list {:?} expected {:?}", hist, b, want)); }
    if a.capacity() > 2 * stored + 8 { return Err(format!("[C19] {}-> export capacity {} for {} stored entries", hist, a.capacity(), stored)); }
    if b.capacity() > 2 * model.len() + 8 { return Err(format!("[C19] {}-> list export capacity {} for {} stored entries", hist, b.capacity(), model.len())); }
    if let Some(m) = inv_fail { return Err(m); }
    Ok(())
}

fn explore_map(seed: u64, steps: usize, nkeys: i32) -> Result<(), String> {
    use i_tree::map::list::MapList;
    let mut rng = Rng(seed.wrapping_mul(0x9E3779B97F4A7C15) | 1);
    let mut t = MapTree::<i32, HV>::new(if seed % 3 == 0 { 0 } else { 9 });
    let mut l = MapList::<i32, HV>::new(0);
    let mut model = std::collections::BTreeMap::<i32, i32>::new();
    let mut hist = String::new();
    let mut inv_fail: Option<String> = None;
    let mut vseq = 1000;
    for _ in 0..steps {
        let op = rng.below(14);
        let k = rng.below(nkeys as u64) as i32;
        match op {
            0..=4 => {
                if model.contains_key(&k) { continue; }
                vseq += 1;
                // C17: handles taken before an insertion keep designating the same entry
                let handles: Vec<(i32, u32)> = model.keys().map(|&kk| (kk, t.first_index_less(kk))).collect();
                h!(hist, "insert({},{}); ", k, vseq);
                t.insert(k, hv(vseq)); l.insert(k, hv(vseq)); model.insert(k, vseq);
                for (kk, h) in handles {
                    if t.value_by_index(h).get() != model[&kk] { return Err(format!("[C17] {}-> handle of key {} designates value {} after the insertion", hist, kk, t.value_by_index(h).get())); }
                    if t.first_index_less(kk) != h { return Err(format!("[C17] {}-> handle of key {} changed across an insertion", hist, kk)); }
                }
            }
            5 | 6 => { h!(hist, "delete({}); ", k); t.delete(k); l.delete(k); model.remove(&k); }
            7 | 8 => {
                h!(hist, "get_value({}); ", k);
                let a = t.get_value(k).map(|v| v.get()); let b = l.get_value(k).map(|v| v.get()); let w = model.get(&k).cloned();
                if a != w { return Err(format!("[C04] {}-> tree {:?} expected {:?}", hist, a, w)); }
                if b != w { return Err(format!("[C13] {}-> list {:?} expected {:?}", hist, b, w)); }
            }
            9 | 10 | 11 => {
                let w = model.range(..=k).next_back().map(|(a, b)| (*a, *b));
                h!(hist, "first_index_less({}); ", k);
                let h = t.first_index_less(k); let h2 = t.first_index_less_by(|x| x.cmp(&k));
                let hl = l.first_index_less(k); let hl2 = l.first_index_less_by(|x| x.cmp(&k));
                if h != h2 { return Err(format!("[C08] {}-> tree key form {} comparator form {}", hist, h, h2)); }
                if hl != hl2 { return Err(format!("[C13] {}-> list key form {} comparator form {}", hist, hl, hl2)); }
                match w {
                    None => { if h != EMPTY_REF || hl != EMPTY_REF { return Err(format!("[C08] {}-> handle {} / {} expected the empty sentinel", hist, h, hl)); } }
                    Some((wk, wv)) => {
                        if h == EMPTY_REF || hl == EMPTY_REF { return Err(format!("[C08] {}-> empty sentinel, expected the entry {}", hist, wk)); }
                        if t.value_by_index(h).get() != wv || l.value_by_index(hl).get() != wv { return Err(format!("[C08] {}-> read {} / {} through the handle, expected {}", hist, t.value_by_index(h).get(), l.value_by_index(hl).get(), wv)); }
                        if op == 10 {
                            vseq += 1; h!(hist, "write({}); ", vseq);
                            *t.value_by_index_mut(h) = hv(vseq); *l.value_by_index_mut(hl) = hv(vseq); model.insert(wk, vseq);
                        } else if op == 11 {
                            h!(hist, "delete_by_index; ");
                            t.delete_by_index(h); l.delete_by_index(hl); model.remove(&wk);
                        }
                    }
                }
            }
            12 => { if rng.below(5) != 0 { continue; } h!(hist, "clear(); "); t.clear(); l.clear(); model.clear(); }
            _ => {
                if t.is_empty() != model.is_empty() || l.is_empty() != model.is_empty() { return Err(format!("[C04] {}-> is_empty {} / {} with {} entries", hist, t.is_empty(), l.is_empty(), model.len())); }
            }
        }
        match map_tree_wf(&t) {
            Err(e) => { let m = format!("[{}{}] {}-> invariant broken: {}", inv_tags(&e), if hist.ends_with("clear(); ") { ",C12" } else { "" }, hist, e); if PAST_INV.load(std::sync::atomic::Ordering::Relaxed) { if inv_fail.is_none() { inv_fail = Some(m); } } else { return Err(m); } }
            Ok(n) => { if n != model.len() { return Err(format!("[C04,C11] {}-> {} entries stored, {} expected", hist, n, model.len())); } }
        }
        for (kk, vv) in model.iter() { if t.get_value(*kk).map(|v| v.get()) != Some(*vv) { return Err(format!("[C04] {}-> key {} lost or altered", hist, kk)); } }
    }
    if let Some(m) = inv_fail { return Err(m); }
    Ok(())
}

fn explore_set(seed: u64, steps: usize, nkeys: i32) -> Result<(), String> {
    let mut rng = Rng(seed.wrapping_mul(0x9E3779B97F4A7C15) | 1);
    let mut t = SetTree::<i32, SV>::new(if seed % 3 == 0 { 0 } else { 9 });
    let mut l = SetList::<SV>::new(0);
    let mut model = std::collections::BTreeMap::<i32, i32>::new();
    let mut hist = String::new();
    let mut inv_fail: Option<String> = None;
    let mut vseq = 1000;
    for _ in 0..steps {
        let op = rng.below(14);
        let k = rng.below(nkeys as u64) as i32;
        match op {
            0..=4 => {
                if model.contains_key(&k) { continue; }
                vseq += 1;
                // C17: handles taken before an insertion keep designating the same entry
                let handles: Vec<(i32, u32)> = model.keys().map(|kk| (*kk, t.first_index_less(kk))).collect();
                h!(hist, "insert({},{}); ", k, vseq);
                t.insert(sv(k, vseq)); SetCollection::<i32, SV>::insert(&mut l, sv(k, vseq)); model.insert(k, vseq);
                for (kk, h) in handles {
                    if h == EMPTY_REF || (h as usize) >= t.store.buffer.len() { continue; } // (a lookup that already failed is reported by C05 / C08)
                    let v = t.value_by_index(h);
                    if v.k != kk || v.get() != model[&kk] { return Err(format!("[C17] {}-> handle of key {} designates ({},{}) after the insertion", hist, kk, v.k, v.get())); }
                    if t.first_index_less(&kk) != h { return Err(format!("[C17] {}-> handle of key {} changed across an insertion", hist, kk)); }
                }
            }
            5 | 6 => { h!(hist, "delete({}); ", k); t.delete(&k); SetCollection::<i32, SV>::delete(&mut l, &k); model.remove(&k); }
            7 | 8 => {
                h!(hist, "get_value({}); ", k);
                let a = t.get_value(&k).map(|v| v.get()); let b = SetCollection::<i32, SV>::get_value(&l, &k).map(|v| v.get()); let w = model.get(&k).cloned();
                if a != w { return Err(format!("[C05] {}-> tree {:?} expected {:?}", hist, a, w)); }
                if b != w { return Err(format!("[C13] {}-> list {:?} expected {:?}", hist, b, w)); }
            }
            9 | 10 => {
                let w = model.range(..=k).next_back().map(|(a, b)| (*a, *b));
                h!(hist, "first_index_less({}); ", k);
                let h = t.first_index_less(&k); let h2 = t.first_index_less_by(|x| x.cmp(&k));
                if h != h2 { return Err(format!("[C08] {}-> tree key form {} comparator form {}", hist, h, h2)); }
                match w {
                    None => { if h != EMPTY_REF { return Err(format!("[C08] {}-> handle {} expected the empty sentinel", hist, h)); } }
                    Some((wk, wv)) => {
                        if h == EMPTY_REF { return Err(format!("[C08] {}-> empty sentinel, expected the entry {}", hist, wk)); }
                        if t.value_by_index(h).get() != wv { return Err(format!("[C08] {}-> read {} through the handle, expected {}", hist, t.value_by_index(h).get(), wv)); }
                        if op == 10 { h!(hist, "delete_by_index; "); t.delete_by_index(h); SetCollection::<i32, SV>::delete(&mut l, &wk); model.remove(&wk); }
                    }
                }
            }
            11 => {
                // C09: neighbour steps from every stored entry, both directions, with the sentinel at the ends
                h!(hist, "walk; ");
                let keys: Vec<i32> = model.keys().cloned().collect();
                for (pos, kk) in keys.iter().enumerate() {
                    let h = t.first_index_less(kk);
                    let a = t.index_after(h); let b = t.index_before(h);
                    let wa = keys.get(pos + 1).cloned(); let wb = if pos > 0 { Some(keys[pos - 1]) } else { None };
                    let ga = if a == EMPTY_REF { None } else { Some(t.value_by_index(a).k) };
                    let gb = if b == EMPTY_REF { None } else { Some(t.value_by_index(b).k) };
                    if ga != wa { return Err(format!("[C09] {}-> successor of {} is {:?} expected {:?}", hist, kk, ga, wa)); }
                    if gb != wb { return Err(format!("[C09] {}-> predecessor of {} is {:?} expected {:?}", hist, kk, gb, wb)); }
                    let la = SetCollection::<i32, SV>::index_after(&l, pos as u32); let lb = SetCollection::<i32, SV>::index_before(&l, pos as u32);
                    if (la == EMPTY_REF) != wa.is_none() || (lb == EMPTY_REF) != wb.is_none() { return Err(format!("[C13] {}-> list neighbour steps at position {}: {} / {}", hist, pos, la, lb)); }
                }
            }
            12 => { if rng.below(5) != 0 { continue; } h!(hist, "clear(); "); t.clear(); SetCollection::<i32, SV>::clear(&mut l); model.clear(); }
            _ => { if t.is_empty() != model.is_empty() { return Err(format!("[C05] {}-> is_empty {} with {} entries", hist, t.is_empty(), model.len())); } }
        }
        match set_tree_wf(&t) {
            Err(e) => { let m = format!("[{}{}] {}-> invariant broken: {}", inv_tags(&e), if hist.ends_with("clear(); ") { ",C12" } else { "" }, hist, e); if PAST_INV.load(std::sync::atomic::Ordering::Relaxed) { if inv_fail.is_none() { inv_fail = Some(m); } } else { return Err(m); } }
            Ok(n) => { if n != model.len() { return Err(format!("[C05,C11] {}-> {} entries stored, {} expected", hist, n, model.len())); } }
        }
    }
    if let Some(m) = inv_fail { return Err(m); }
    Ok(())
}

#[derive(Clone, Copy, Debug, PartialEq)]
struct XV { id: i32, exp: i32 }
impl i_tree::ExpiredVal<i32> for XV { fn expiration(&self) -> i32 { self.exp } }

// C15 on the real mask functions, all 528 x 528 pairs of bucket ranges: the places meet iff the ranges overlap; the places of
// [a,b] tile it (every bucket of [a,b] under exactly one place, none outside); at most 8 places, none beyond the last leaf
fn masks_exhaustive() -> Result<(), String> {
    use i_tree::seg::heap::Heap32;
    for a in 0u32..32 { for b in a..32 {
        let place = Heap32::range_to_place_mask(a, b);
        if place == 0 || place.count_ones() > 8 || place >> 63 != 0 { return Err(format!("[C15] range_to_place_mask({},{}) = {:#x}: {} places", a, b, place, place.count_ones())); }
        if (b + 32) < 64 && place >> (b + 32) != 0 { return Err(format!("[C15,C14] range_to_place_mask({},{}) = {:#x} has a place beyond the last leaf of the range", a, b, place)); }
        for leaf in 0u32..32 {
            let mut node = leaf + 31; let mut on_path = ((place >> node) & 1) as u32;
            while node > 0 { node = (node - 1) >> 1; on_path += ((place >> node) & 1) as u32; }
            if on_path != if a <= leaf && leaf <= b { 1 } else { 0 } { return Err(format!("[C15] range_to_place_mask({},{}) = {:#x}: bucket {} lies under {} places", a, b, place, leaf, on_path)); }
        }
        for c in 0u32..32 { for d in c..32 {
            let visit = Heap32::range_to_intersect_mask(c, d);
            if (d + 32) < 64 && visit >> (d + 32) != 0 || visit >> 63 != 0 { return Err(format!("[C15,C14] range_to_intersect_mask({},{}) = {:#x} visits a place beyond the last leaf of the range", c, d, visit)); }
            let overlap = !(b < c || d < a);
            if ((place & visit) != 0) != overlap { return Err(format!("[C15,C03] place mask of [{},{}] = {:#x}, visit mask of [{},{}] = {:#x}: they {} although the ranges {}", a, b, place, c, d, visit, if (place & visit) != 0 { "meet" } else { "do not meet" }, if overlap { "overlap" } else { "do not overlap" })); }
        } }
    } }
    Ok(())
}

fn explore_seg(seed: u64, steps: usize) -> Result<(), String> {
    use i_tree::seg::exp::{SegExpCollection, SegRange};
    use i_tree::seg::tree::SegExpTree;
    if seed == 1 { masks_exhaustive()?; }
    let mut rng = Rng(seed.wrapping_mul(0x9E3779B97F4A7C15) | 1);
    let domains: [(i64, i64); 12] = [(0, 31), (-16, 15), (0, 127), (-1000, 2000), (5, 21), (0, 128), (-7, 25), (100, 1124), (0, (1i64 << 33) + (1i64 << 32) - 1), (-(1i64 << 40), 1i64 << 40),
        (i64::MIN, i64::MAX), (-(1i64 << 62) - 5, (1i64 << 62) + 5)]; // the last two: more than i64::MAX points
    let (lo, hi) = domains[(seed % 12) as usize];
    note(&format!("SegExpTree::new(domain [{},{}]); ", lo, hi));
    let mut t = match SegExpTree::<i64, i32, XV>::new(SegRange { min: lo, max: hi }) { Some(t) => t, None => return Err(format!("[C14] new([{},{}]) refused a domain of {} points", lo, hi, hi as i128 - lo as i128 + 1)) };
    let len: i128 = hi as i128 - lo as i128 + 1;
    let mut scale = 0; while (32i128 << scale) < len { scale += 1; }
    let bucket = |x: i64| -> i128 { (x as i128 - lo as i128) >> scale };
    let span = (len - 1) as u64;
    let pick = |r: &mut Rng| -> i64 { let off = if span == u64::MAX { r.next() } else { r.below(span + 1) }; (lo as i128 + off as i128) as i64 };
    let mut model: Vec<(i64, i64, XV)> = vec![];
    let mut time = 0i32;
    let mut hist = format!("domain [{},{}]: ", lo, hi);
    let mut idseq = 0;
    for _ in 0..steps {
        let op = rng.below(10);
        if rng.below(3) == 0 { time += rng.below(3) as i32; }
        let a = pick(&mut rng); let b = pick(&mut rng);
        let (a, b) = if a <= b { (a, b) } else { (b, a) };
        match op {
            0..=3 => {
                idseq += 1; let v = XV { id: idseq, exp: if seed % 4 == 1 && rng.below(4) == 0 { i32::MAX } else { time + rng.below(5) as i32 - 1 } };
                h!(hist, "insert([{},{}],id={},exp={}); ", a, b, v.id, v.exp);
                t.insert_by_range(SegRange { min: a, max: b }, v); model.push((a, b, v));
            }
            4..=7 => {
                let whole = op == 7; let (qa, qb) = if whole { (lo, hi) } else { (a, b) };
                let partial = !whole && rng.below(4) == 0;
                h!(hist, "query([{},{}],t={}{}); ", qa, qb, time, if partial { ",take 1" } else { "" });
                let mut want: Vec<i32> = model.iter().filter(|m| m.2.exp >= time && !(bucket(m.1) < bucket(qa) || bucket(qb) < bucket(m.0))).map(|m| m.2.id).collect();
                want.sort();
                let mut got: Vec<i32> = if partial { t.iter_by_range(SegRange { min: qa, max: qb }, time).take(1).map(|v| v.id).collect() } else { t.iter_by_range(SegRange { min: qa, max: qb }, time).map(|v| v.id).collect() };
                got.sort();
                if partial { if got.iter().any(|g| !want.contains(g)) || (got.is_empty() && !want.is_empty()) { return Err(format!("[C03] {}-> partial {:?} expected one of {:?}", hist, got, want)); } }
                else if got != want {
                    // an expired value among the answers is C03's "nothing with expiration below t"; a missing, duplicated or
                    // non-overlapping live value is (also) about where copies are placed and which places a query visits (C15)
                    let expired_yielded = got.iter().any(|g| model.iter().any(|m| m.2.id == *g && m.2.exp < time));
                    let live_wrong = { let gl: Vec<i32> = got.iter().cloned().filter(|g| !model.iter().any(|m| m.2.id == *g && m.2.exp < time)).collect(); gl != want };
                    let _ = expired_yielded;
                    return Err(format!("[C03{}] {}-> {:?} expected {:?}", if live_wrong { ",C15" } else { "" }, hist, got, want));
                }
                if whole {
                    // C16: after a fully consumed whole-domain query only copies of unexpired values are stored
                    for c in t.chunks.iter() { for e in c.buffer.iter() { if e.val.exp < time { return Err(format!("[C16] {}-> an expired copy (id {}, exp {}) is still stored", hist, e.val.id, e.val.exp)); } } }
                }
            }
            8 => { if rng.below(4) != 0 { continue; } h!(hist, "clear(); "); t.clear(); model.clear(); if rng.below(2) == 0 { time = 0; } }
            _ => {}
        }
        for (ci, c) in t.chunks.iter().enumerate() { for e in c.buffer.iter() { if (e.mask >> ci) & 1 != 1 { return Err(format!("[C03,C15] {}-> chunk {} holds a copy whose mask lacks bit {}", hist, ci, ci)); } } }
    }
    Ok(())
}

// C19 / C07 / C11 on large trees: bulk insertion (ascending, descending, shuffled), optional mass expiry, export
fn explore_key_bulk(seed: u64) -> Result<(), String> {
    let sizes = [70usize, 200, 1000, 5000, 20000];
    let n = sizes[(seed as usize / 3) % sizes.len()];
    let order = seed % 3;
    let mut rng = Rng(seed.wrapping_mul(0x9E3779B97F4A7C15) | 1);
    let mut keys: Vec<i32> = (0..n as i32).collect();
    if order == 1 { keys.reverse(); }
    if order == 2 { for i in (1..keys.len()).rev() { let j = rng.below(i as u64 + 1) as usize; keys.swap(i, j); } }
    for expire in [false, true] {
        let mut t = KeyExpTree::<KK, i32, i32>::new(if seed % 2 == 0 { 0 } else { 16 });
        let hist = format!("bulk: {} keys ({}) with expiration 10 inserted at t=0{}; ", n, ["ascending", "descending", "shuffled"][order as usize], if expire { ", then insert(k=-1,exp=100) at t=20" } else { "" });
        note(&hist);
        for k in keys.iter() { t.insert(KK(*k, 10), *k + 7, 0); }
        let time = if expire { t.insert(KK(-1, 100), 6, 20); 20 } else { 5 };
        let stored = match key_tree_wf(&t) { Ok(c) => c, Err(e) => return Err(format!("[{}] {}-> invariant broken: {}", inv_tags(&e), hist, e)) };
        if t.store.buffer.len() > 4 * (n + 1) + 64 { return Err(format!("[C11] {}-> {} slots allocated for a peak of {} entries", hist, t.store.buffer.len(), n + 1)); }
        let want: Vec<i32> = if expire { vec![6] } else { (0..n as i32).map(|k| k + 7).collect() };
        let a = t.into_ordered_vec(time);
        if a != want { return Err(format!("[C07] {}into_ordered_vec(t={}) -> {} values, first {:?}; expected {} values", hist, time, a.len(), a.first(), want.len())); }
        if a.capacity() > 2 * stored + 8 { return Err(format!("[C19] {}into_ordered_vec(t={}) -> export capacity {} for {} stored entries", hist, time, a.capacity(), stored)); }
    }
    Ok(())
}

// C08 / C09 / C13 / C17 on large collections: more than 2^16 entries (handles and positions far from small numbers)
fn explore_bulk_handles(trees: bool) -> Result<(), String> {
    let n = 70000i32;
    if !trees {
        let hist = format!("bulk: {} ascending keys inserted into the map list and the set list; ", n);
        note(&hist);
        let mut ml = i_tree::map::list::MapList::<i32, i32>::new(0);
        let mut sl = SetList::<SV>::new(0);
        for k in 0..n { ml.insert(k, k + 1); SetCollection::<i32, SV>::insert(&mut sl, sv(k, k + 1)); }
        let mut pos = SetCollection::<i32, SV>::first_index_less(&sl, &0);
        for k in 0..n {
            let pl = ml.first_index_less(k);
            if pl == EMPTY_REF || *ml.value_by_index(pl) != k + 1 { return Err(format!("[C13] {}-> map list: position {} for the stored key {} (the sentinel is {})", hist, pl, k, EMPTY_REF)); }
            if pos == EMPTY_REF || SetCollection::<i32, SV>::value_by_index(&sl, pos).k != k { return Err(format!("[C13] {}-> set list: the forward walk reaches {} at key {} (the sentinel is {})", hist, pos, k, EMPTY_REF)); }
            pos = SetCollection::<i32, SV>::index_after(&sl, pos);
        }
        if pos != EMPTY_REF { return Err(format!("[C13] {}-> set list: a step past the last position gives {}", hist, pos)); }
        return Ok(());
    }
    let hist = format!("bulk: {} ascending keys inserted into the map tree and the set tree; ", n);
    note(&hist);
    let mut mt = MapTree::<i32, i32>::new(0);
    let mut st = SetTree::<i32, SV>::new(0);
    for k in 0..n { mt.insert(k, k + 1); st.insert(sv(k, k + 1)); }
    if let Err(e) = map_tree_wf(&mt) { return Err(format!("[{}] {}-> invariant broken: {}", inv_tags(&e), hist, e)); }
    if let Err(e) = set_tree_wf(&st) { return Err(format!("[{}] {}-> invariant broken: {}", inv_tags(&e), hist, e)); }
    let mut h = st.first_index_less(&0);
    for k in 0..n {
        if mt.get_value(k) != Some(&(k + 1)) { return Err(format!("[C04] {}-> map tree lost key {}", hist, k)); }
        let hm = mt.first_index_less(k);
        if hm == EMPTY_REF || *mt.value_by_index(hm) != k + 1 { return Err(format!("[C08] {}-> map tree: handle {} for the stored key {}", hist, hm, k)); }
        if h == EMPTY_REF || st.value_by_index(h).k != k { return Err(format!("[C09] {}-> set tree: the forward walk reaches handle {} at key {}", hist, h, k)); }
        h = st.index_after(h);
    }
    if h != EMPTY_REF { return Err(format!("[C09] {}-> set tree: a step past the greatest entry gives {}", hist, h)); }
    Ok(())
}

fn explore(which: &str, seeds: u64, steps: usize) -> Result<u64, String> {
    let past = PAST_INV.load(std::sync::atomic::Ordering::Relaxed);
    let mut first_inv: Option<String> = None;
    for seed in 1..=seeds {
        note(""); // (a panic before the first recorded step must not be reported with the previous history)
        let nkeys = if seed % 4 == 0 { 40 } else { 8 };
        let r = match which {
            "key" => if seed <= 15 { explore_key_bulk(seed).and_then(|_| explore_key(seed, steps, nkeys)) } else { explore_key(seed, steps, nkeys) },
            "map" => if seed <= 2 { explore_bulk_handles(seed == 2) } else { explore_map(seed, steps, nkeys) },
            "set" => if seed <= 2 { explore_bulk_handles(seed == 2) } else { explore_set(seed, steps, nkeys) },
            "seg" => explore_seg(seed, steps),
            _ => Err("unknown collection".to_string()),
        };
        if let Err(e) = r {
            // focus mode: a history that fails for a different property is recorded and skipped; the search goes on for one
            // that fails for the properties asked for
            let focus = FOCUS.lock().map(|g| g.clone()).unwrap_or_default();
            if !focus.is_empty() {
                let tags: Vec<&str> = e.trim_start_matches('[').split(']').next().unwrap_or("").split(',').collect();
                if !tags.iter().any(|t| focus.iter().any(|f| f == t)) { continue; }
            }
            if past && e.contains("-> invariant broken: ") {
                // only the invariant is broken in this history: keep looking for a history in which it becomes observable
                if first_inv.is_none() { first_inv = Some(format!("seed {}: {}", seed, e)); }
                continue;
            }
            return Err(format!("seed {}: {}", seed, e));
        }
    }
    if let Some(e) = first_inv { return Err(e); }
    Ok(seeds)
}

// ---------------------------------------------------------------------------------------------
// C18: panic injection.  For every history (a deterministic script of in-contract operations) and every operation of it, a
// panic is injected at every index of the user callbacks that operation makes (ordering, comparator closure, key accessor,
// expiration accessor).  After catch_unwind the collection must be structurally valid, its observable contents must be
// those before or those after the operation, and the rest of the history must run on it as on a twin that never panicked.
#[derive(Clone, Copy, Debug, Default)]
struct FK(i32);
impl PartialEq for FK { fn eq(&self, o: &Self) -> bool { self.0 == o.0 } }
impl Eq for FK {}
impl PartialOrd for FK { fn partial_cmp(&self, o: &Self) -> Option<Ordering> { Some(self.cmp(o)) } }
impl Ord for FK { fn cmp(&self, o: &Self) -> Ordering { cb_fuse(); self.0.cmp(&o.0) } }
#[derive(Clone, Copy, Default, Debug, PartialEq)]
struct FV { k: FK, payload: i32 }
impl i_tree::set::sort::KeyValue<FK> for FV { fn key(&self) -> &FK { cb_fuse(); &self.k } }
#[derive(Clone, Copy, Debug)]
struct FX { id: i32, exp: i32 }
impl i_tree::ExpiredVal<i32> for FX { fn expiration(&self) -> i32 { cb_fuse(); self.exp } }

#[derive(Clone, Copy, Debug)]
enum POp { Ins(i32, i32, i32), Del(i32), Get(i32), Less(i32), LessEq(i32), LessBy(i32), DelAt(i32), Clear, Query(i32, i32, bool) }

trait Subject: Sized {
    const NAME: &'static str;
    const EXPIRING: bool;
    fn fresh(seed: u64) -> Self;
    fn apply(&mut self, op: &POp, time: i32);
    fn valid(&self) -> Result<(), String>;
    // observable contents at `time` (callbacks disarmed): (key, value) in key order
    fn contents(&mut self, time: i32, nkeys: i32) -> Vec<(i32, i32)>;
}

fn rb_wf<N>(b: &[N], root: u32, unused: &[u32], links: &dyn Fn(&N) -> (u32, u32, u32, bool), key: &dyn Fn(&N) -> i64) -> Result<(), String> {
    wf_exec(b.len(), root, unused, &|i| links(&b[i as usize]), &|i| key(&b[i as usize])).map(|_| ())
}

struct PKeyTree(KeyExpTree<KK, i32, i32>);
impl Subject for PKeyTree {
    const NAME: &'static str = "KeyExpTree"; const EXPIRING: bool = true;
    fn fresh(seed: u64) -> Self { PKeyTree(KeyExpTree::new(if seed % 3 == 0 { 0 } else { 5 })) }
    fn apply(&mut self, op: &POp, time: i32) {
        match *op {
            POp::Ins(k, e, v) => self.0.insert(KK(k, e), v, time),
            POp::Get(k) => { self.0.get_value(time, KK(k, PROBE_EXP)); }
            POp::Less(k) => { self.0.first_less(time, -1, KK(k, PROBE_EXP)); }
            POp::LessEq(k) => { self.0.first_less_or_equal(time, -1, KK(k, PROBE_EXP)); }
            POp::LessBy(k) => { self.0.first_less_or_equal_by(time, -1, |x: KK| { cb_fuse(); x.0.cmp(&k) }); }
            POp::Clear => self.0.clear(),
            _ => {}
        }
    }
    fn valid(&self) -> Result<(), String> { key_tree_wf(&self.0).map(|_| ()) }
    fn contents(&mut self, time: i32, nkeys: i32) -> Vec<(i32, i32)> { (0..nkeys).filter_map(|k| self.0.get_value(time, KK(k, PROBE_EXP)).map(|v| (k, v))).collect() }
}
struct PKeyList(KeyExpList<KK, i32, i32>);
impl Subject for PKeyList {
    const NAME: &'static str = "KeyExpList"; const EXPIRING: bool = true;
    fn fresh(_: u64) -> Self { PKeyList(KeyExpList::new(0)) }
    fn apply(&mut self, op: &POp, time: i32) {
        match *op {
            POp::Ins(k, e, v) => self.0.insert(KK(k, e), v, time),
            POp::Get(k) => { self.0.get_value(time, KK(k, PROBE_EXP)); }
            POp::Less(k) => { self.0.first_less(time, -1, KK(k, PROBE_EXP)); }
            POp::LessEq(k) => { self.0.first_less_or_equal(time, -1, KK(k, PROBE_EXP)); }
            POp::LessBy(k) => { self.0.first_less_or_equal_by(time, -1, |x: KK| { cb_fuse(); x.0.cmp(&k) }); }
            POp::Clear => self.0.clear(),
            _ => {}
        }
    }
    fn valid(&self) -> Result<(), String> {
        let b = &self.0.buffer;
        for w in b.windows(2) { if w[0].key.0 >= w[1].key.0 { return Err(format!("buffer not strictly ascending by key: {} then {}", w[0].key.0, w[1].key.0)); } }
        for e in b.iter() { if e.key.1 < self.0.min_exp { return Err(format!("cached minimum {} above the stored expiration {}", self.0.min_exp, e.key.1)); } }
        Ok(())
    }
    fn contents(&mut self, time: i32, nkeys: i32) -> Vec<(i32, i32)> { (0..nkeys).filter_map(|k| self.0.get_value(time, KK(k, PROBE_EXP)).map(|v| (k, v))).collect() }
}
struct PMapTree(MapTree<FK, i32>);
impl Subject for PMapTree {
    const NAME: &'static str = "MapTree"; const EXPIRING: bool = false;
    fn fresh(seed: u64) -> Self { PMapTree(MapTree::new(if seed % 3 == 0 { 0 } else { 5 })) }
    fn apply(&mut self, op: &POp, _: i32) {
        match *op {
            POp::Ins(k, _, v) => self.0.insert(FK(k), v),
            POp::Del(k) => self.0.delete(FK(k)),
            POp::Get(k) => { self.0.get_value(FK(k)); }
            POp::Less(k) | POp::LessEq(k) => { self.0.first_index_less(FK(k)); }
            POp::LessBy(k) => { self.0.first_index_less_by(|x: FK| { cb_fuse(); x.0.cmp(&k) }); }
            POp::DelAt(k) => { let h = self.0.first_index_less(FK(k)); if h != EMPTY_REF { self.0.delete_by_index(h); } }
            POp::Clear => self.0.clear(),
            _ => {}
        }
    }
    fn valid(&self) -> Result<(), String> {
        use i_tree::map::node::Color;
        rb_wf(&self.0.store.buffer, self.0.root, &self.0.store.unused, &|n| (n.parent, n.left, n.right, n.color == Color::Red), &|n| n.entity.key.0 as i64)
    }
    fn contents(&mut self, _: i32, nkeys: i32) -> Vec<(i32, i32)> { (0..nkeys).filter_map(|k| self.0.get_value(FK(k)).map(|v| (k, *v))).collect() }
}
struct PMapList(i_tree::map::list::MapList<FK, i32>);
impl Subject for PMapList {
    const NAME: &'static str = "MapList"; const EXPIRING: bool = false;
    fn fresh(_: u64) -> Self { PMapList(i_tree::map::list::MapList::new(0)) }
    fn apply(&mut self, op: &POp, _: i32) {
        match *op {
            POp::Ins(k, _, v) => self.0.insert(FK(k), v),
            POp::Del(k) => self.0.delete(FK(k)),
            POp::Get(k) => { self.0.get_value(FK(k)); }
            POp::Less(k) | POp::LessEq(k) => { self.0.first_index_less(FK(k)); }
            POp::LessBy(k) => { self.0.first_index_less_by(|x: FK| { cb_fuse(); x.0.cmp(&k) }); }
            POp::DelAt(k) => { let h = self.0.first_index_less(FK(k)); if h != EMPTY_REF { self.0.delete_by_index(h); } }
            POp::Clear => self.0.clear(),
            _ => {}
        }
    }
    fn valid(&self) -> Result<(), String> {
        for w in self.0.buffer.windows(2) { if w[0].key.0 >= w[1].key.0 { return Err(format!("buffer not strictly ascending by key: {} then {}", w[0].key.0, w[1].key.0)); } }
        Ok(())
    }
    fn contents(&mut self, _: i32, nkeys: i32) -> Vec<(i32, i32)> { (0..nkeys).filter_map(|k| self.0.get_value(FK(k)).map(|v| (k, *v))).collect() }
}
struct PSetTree(SetTree<FK, FV>);
impl Subject for PSetTree {
    const NAME: &'static str = "SetTree"; const EXPIRING: bool = false;
    fn fresh(seed: u64) -> Self { PSetTree(SetTree::new(if seed % 3 == 0 { 0 } else { 5 })) }
    fn apply(&mut self, op: &POp, _: i32) {
        match *op {
            POp::Ins(k, _, v) => self.0.insert(FV { k: FK(k), payload: v }),
            POp::Del(k) => self.0.delete(&FK(k)),
            POp::Get(k) => { self.0.get_value(&FK(k)); }
            POp::Less(k) | POp::LessEq(k) => { self.0.first_index_less(&FK(k)); }
            POp::LessBy(k) => { self.0.first_index_less_by(|x: &FK| { cb_fuse(); x.0.cmp(&k) }); }
            POp::DelAt(k) => { let h = self.0.first_index_less(&FK(k)); if h != EMPTY_REF { self.0.delete_by_index(h); } }
            POp::Clear => self.0.clear(),
            _ => {}
        }
    }
    fn valid(&self) -> Result<(), String> {
        use i_tree::set::node::Color;
        rb_wf(&self.0.store.buffer, self.0.root, &self.0.store.unused, &|n| (n.parent, n.left, n.right, n.color == Color::Red), &|n| n.value.k.0 as i64)
    }
    fn contents(&mut self, _: i32, nkeys: i32) -> Vec<(i32, i32)> { (0..nkeys).filter_map(|k| self.0.get_value(&FK(k)).map(|v| (k, v.payload))).collect() }
}
struct PSetList(SetList<FV>);
impl Subject for PSetList {
    const NAME: &'static str = "SetList"; const EXPIRING: bool = false;
    fn fresh(_: u64) -> Self { PSetList(SetList::new(0)) }
    fn apply(&mut self, op: &POp, _: i32) {
        match *op {
            POp::Ins(k, _, v) => SetCollection::<FK, FV>::insert(&mut self.0, FV { k: FK(k), payload: v }),
            POp::Del(k) => SetCollection::<FK, FV>::delete(&mut self.0, &FK(k)),
            POp::Get(k) => { SetCollection::<FK, FV>::get_value(&self.0, &FK(k)); }
            POp::Less(k) | POp::LessEq(k) => { SetCollection::<FK, FV>::first_index_less(&self.0, &FK(k)); }
            POp::LessBy(k) => { SetCollection::<FK, FV>::first_index_less_by(&self.0, |x: &FK| { cb_fuse(); x.0.cmp(&k) }); }
            POp::DelAt(k) => { let h = SetCollection::<FK, FV>::first_index_less(&self.0, &FK(k)); if h != EMPTY_REF { SetCollection::<FK, FV>::delete_by_index(&mut self.0, h); } }
            POp::Clear => SetCollection::<FK, FV>::clear(&mut self.0),
            _ => {}
        }
    }
    fn valid(&self) -> Result<(), String> {
        for w in self.0.buffer.windows(2) { if w[0].k.0 >= w[1].k.0 { return Err(format!("buffer not strictly ascending by key: {} then {}", w[0].k.0, w[1].k.0)); } }
        Ok(())
    }
    fn contents(&mut self, _: i32, nkeys: i32) -> Vec<(i32, i32)> { (0..nkeys).filter_map(|k| SetCollection::<FK, FV>::get_value(&self.0, &FK(k)).map(|v| (k, v.payload))).collect() }
}
struct PSeg(i_tree::seg::tree::SegExpTree<i32, i32, FX>);
impl Subject for PSeg {
    const NAME: &'static str = "SegExpTree"; const EXPIRING: bool = true;
    fn fresh(_: u64) -> Self { PSeg(i_tree::seg::tree::SegExpTree::new(i_tree::seg::exp::SegRange { min: 0, max: 63 }).unwrap()) }
    fn apply(&mut self, op: &POp, time: i32) {
        use i_tree::seg::exp::{SegExpCollection, SegRange};
        match *op {
            // every seventh value spans the whole domain (it is stored in the root chunk)
            POp::Ins(k, e, v) => self.0.insert_by_range(if v % 7 == 0 { SegRange { min: 0, max: 63 } } else { SegRange { min: k, max: (k + (v % 23)).min(63) } }, FX { id: v, exp: e }),
            POp::Query(a, b, partial) => { if partial { let _ = self.0.iter_by_range(SegRange { min: a, max: b }, time).take(1).count(); } else { let _ = self.0.iter_by_range(SegRange { min: a, max: b }, time).count(); } }
            POp::Clear => self.0.clear(),
            _ => {}
        }
    }
    fn valid(&self) -> Result<(), String> {
        for (ci, c) in self.0.chunks.iter().enumerate() { for e in c.buffer.iter() { if (e.mask >> ci) & 1 != 1 { return Err(format!("chunk {} holds a copy whose mask lacks bit {}", ci, ci)); } } }
        Ok(())
    }
    // (id, number of range buckets the live value is reported in) per live value, over every single-bucket query
    fn contents(&mut self, time: i32, _: i32) -> Vec<(i32, i32)> {
        use i_tree::seg::exp::{SegExpCollection, SegRange};
        let mut m = std::collections::BTreeMap::<i32, i32>::new();
        for b in 0..32 { for v in self.0.iter_by_range(SegRange { min: 2 * b, max: 2 * b + 1 }, time) { *m.entry(v.id).or_insert(0) += 1; } }
        m.into_iter().collect()
    }
}

fn gen_script(seed: u64, steps: usize, nkeys: i32, expiring: bool, seg: bool) -> Vec<(POp, i32)> {
    let mut rng = Rng(seed.wrapping_mul(0x9E3779B97F4A7C15) | 1);
    let mut model: Vec<(i32, i32)> = vec![]; // (key, exp)
    let mut time = 0i32; let mut vseq = 100;
    let mut out = vec![];
    while out.len() < steps {
        if expiring && rng.below(3) == 0 { time += rng.below(3) as i32; }
        let k = rng.below(nkeys as u64) as i32;
        let op = rng.below(12);
        if seg {
            let a = rng.below(64) as i32; let b = rng.below(64) as i32; let (a, b) = if a <= b { (a, b) } else { (b, a) };
            match op {
                0..=4 => { vseq += 1; let e = if rng.below(8) == 0 { i32::MAX } else { time + rng.below(5) as i32 - 1 }; out.push((POp::Ins(a, e, vseq), time)); } // (some values never expire)
                5..=9 => out.push((POp::Query(a, b, op == 9), time)),
                10 => out.push((POp::Query(0, 63, false), time)),
                _ => { if rng.below(4) == 0 { out.push((POp::Clear, time)); } }
            }
            continue;
        }
        match op {
            0..=4 => {
                if model.iter().any(|e| e.0 == k && (!expiring || e.1 > time)) { continue; }
                let e = if expiring { time + rng.below(5) as i32 } else { i32::MAX };
                vseq += 1; model.retain(|m| m.0 != k); model.push((k, e));
                out.push((POp::Ins(k, e, vseq), time));
            }
            5 => { if expiring { out.push((POp::Get(k), time)); } else { model.retain(|m| m.0 != k); out.push((POp::Del(k), time)); } }
            6 => out.push((POp::Get(k), time)),
            7 => out.push((POp::Less(k), time)),
            8 => out.push((POp::LessEq(k), time)),
            9 => out.push((POp::LessBy(k), time)),
            10 => { if expiring { out.push((POp::LessEq(k), time)); } else { if let Some(w) = model.iter().filter(|m| m.0 <= k).map(|m| m.0).max() { model.retain(|m| m.0 != w); } out.push((POp::DelAt(k), time)); } }
            _ => { if rng.below(5) == 0 { model.clear(); out.push((POp::Clear, time)); } }
        }
    }
    out
}

thread_local! { static LASTPANIC: std::cell::RefCell<String> = std::cell::RefCell::new(String::new()); }

fn guarded<S: Subject>(s: &mut S, op: &POp, time: i32) -> Result<(), String> {
    std::panic::catch_unwind(std::panic::AssertUnwindSafe(|| s.apply(op, time))).map_err(|_| LASTPANIC.with(|l| l.borrow().clone()))
}

fn panic_history<S: Subject>(seed: u64, steps: usize, nkeys: i32) -> Result<u64, String> {
    let script = gen_script(seed, steps, nkeys, S::EXPIRING, S::NAME == "SegExpTree");
    let mut injections = 0u64;
    let show = |upto: usize| -> String { let mut h = format!("{} seed {}: ", S::NAME, seed); for (o, t) in script[..upto].iter() { h.push_str(&format!("{:?}@t{}; ", o, t)); } h };
    for i in 0..script.len() {
        let (op, time) = script[i];
        // twin that never panics: contents before and after operation i, and the number of callbacks it makes
        let mut twin = S::fresh(seed);
        for (o, t) in script[..i].iter() { twin.apply(o, *t); }
        let mut twin_b = S::fresh(seed);
        for (o, t) in script[..i].iter() { twin_b.apply(o, *t); }
        // damage that is there without any panic is not C18's: the history is explored only while the collection that never saw a
        // panic is valid before and after the step
        if twin_b.valid().is_err() { return Ok(injections); }
        let before = twin_b.contents(time, nkeys);
        cb_arm(1 << 40); twin.apply(&op, time); let n = (1i64 << 40) - CBFUSE.with(|f| f.get()); cb_arm(-1);
        if twin.valid().is_err() { return Ok(injections); }
        let after = twin.contents(time, nkeys);
        for j in 0..n {
            let mut s = S::fresh(seed);
            for (o, t) in script[..i].iter() { s.apply(o, *t); }
            note(&format!("{}then {:?}@t{} with a panic injected at callback #{}", show(i), op, time, j));
            cb_arm(j);
            let r = std::panic::catch_unwind(std::panic::AssertUnwindSafe(|| s.apply(&op, time)));
            cb_arm(-1);
            if r.is_ok() { continue; } // the operation made fewer callbacks on this run (cannot happen: deterministic)
            let lp = LASTPANIC.with(|l| l.borrow().clone());
            if !lp.contains("injected panic") { return Err(format!("[C10] {}then {:?}@t{} with a panic injected at callback #{} -> the real code panicked by itself: {}", show(i), op, time, j, lp)); }
            injections += 1;
            let ctx = format!("{}then {:?}@t{} with a panic injected at callback #{} of {}", show(i), op, time, j, n);
            if let Err(e) = s.valid() { return Err(format!("[C18] {} -> after catch_unwind the collection is not valid: {}", ctx, e)); }
            let c = match std::panic::catch_unwind(std::panic::AssertUnwindSafe(|| s.contents(time, nkeys))) { Ok(c) => c, Err(_) => return Err(format!("[C18] {} -> reading the collection after catch_unwind panicked: {}", ctx, LASTPANIC.with(|l| l.borrow().clone()))) };
            let resume = if c == after { i + 1 } else if c == before { i } else { return Err(format!("[C18] {} -> torn update: contents {:?}, before the operation {:?}, after it {:?}", ctx, c, before, after)); };
            if let Err(e) = s.valid() { return Err(format!("[C18] {} -> after catch_unwind and a read the collection is not valid: {}", ctx, e)); }
            // the rest of the history runs as on the twin
            let mut t2 = S::fresh(seed);
            for (o, t) in script[..i + 1].iter() { t2.apply(o, *t); }
            let mut last_t = time;
            for (q, (o, t)) in script.iter().enumerate().skip(resume) {
                if let Err(p) = guarded(&mut s, o, *t) { return Err(format!("[C18] {} -> continuing with {:?}@t{} the real code panicked: {}", ctx, o, t, p)); }
                if q > i { t2.apply(o, *t); }
                if t2.valid().is_err() { return Ok(injections); } // broken without any panic: not C18's
                if let Err(e) = s.valid() { return Err(format!("[C18] {} -> continuing with {:?}@t{}: the collection is not valid: {}", ctx, o, t, e)); }
                last_t = *t;
            }
            let (c1, c2) = (match std::panic::catch_unwind(std::panic::AssertUnwindSafe(|| s.contents(last_t, nkeys))) { Ok(c) => c, Err(_) => return Err(format!("[C18] {} -> reading the collection at the end of the history panicked", ctx)) }, t2.contents(last_t, nkeys));
            if c1 != c2 { return Err(format!("[C18] {} -> at the end of the history the contents are {:?}, on a collection that never saw the panic {:?}", ctx, c1, c2)); }
        }
    }
    Ok(injections)
}

// C12: after clear() a collection is observationally a new one.  The same pseudo-random script runs on one instance; at every
// Clear a freshly constructed twin is started, and from then on both get the same operations (on odd seeds the caller's clock
// restarts from zero after the clear): their observable contents must agree after every step
fn clear_twin_history<S: Subject>(seed: u64, steps: usize, nkeys: i32) -> Result<u64, String> {
    let script = gen_script(seed, steps, nkeys, S::EXPIRING, S::NAME == "SegExpTree");
    let mut a = S::fresh(seed);
    let mut twin: Option<S> = None;
    let mut shift = 0i32;
    let mut hist = format!("{} seed {}: ", S::NAME, seed);
    let mut compared = 0u64;
    for (op0, t0) in script.iter() {
        let time = *t0 - shift;
        let op = match *op0 { POp::Ins(k, e, v) => POp::Ins(k, if S::EXPIRING && e != i32::MAX { e - shift } else { e }, v), o => o };
        h!(hist, "{:?}@t{}; ", op, time);
        a.apply(&op, time);
        if let POp::Clear = op {
            twin = Some(S::fresh(seed.wrapping_add(1)));
            if S::EXPIRING && seed % 2 == 1 { shift = *t0; } // the clock restarts after the clear
            if let Err(e) = a.valid() { return Err(format!("[C12] {}-> right after clear() the collection is not valid: {}", hist, e)); }
            continue;
        }
        if let Some(b) = twin.as_mut() {
            b.apply(&op, time);
            let (ca, cb) = (a.contents(time, nkeys), b.contents(time, nkeys));
            compared += 1;
            if ca != cb { return Err(format!("[C12] {}-> the cleared collection shows {:?}, a new one given the same operations since the clear shows {:?}", hist, ca, cb)); }
        }
    }
    Ok(compared)
}

fn explore_clear(which: &str, seeds: u64, steps: usize) -> Result<(u64, u64), String> {
    let mut n = 0u64; let mut c = 0u64;
    for seed in 1..=seeds {
        note("");
        let nkeys = if seed % 4 == 0 { 24 } else { 8 };
        c += match which {
            "key-tree" => clear_twin_history::<PKeyTree>(seed, steps, nkeys)?,
            "key-list" => clear_twin_history::<PKeyList>(seed, steps, nkeys)?,
            "map-tree" => clear_twin_history::<PMapTree>(seed, steps, nkeys)?,
            "map-list" => clear_twin_history::<PMapList>(seed, steps, nkeys)?,
            "set-tree" => clear_twin_history::<PSetTree>(seed, steps, nkeys)?,
            "set-list" => clear_twin_history::<PSetList>(seed, steps, nkeys)?,
            "seg" => clear_twin_history::<PSeg>(seed, steps, nkeys)?,
            _ => return Err("unknown collection".to_string()),
        };
        n += 1;
    }
    Ok((n, c))
}

fn explore_panic(which: &str, seeds: u64, steps: usize) -> Result<(u64, u64), String> {
    let mut inj = 0u64;
    for seed in 1..=seeds {
        let nkeys = if seed % 4 == 0 { 24 } else { 7 };
        inj += match which {
            "key-tree" => panic_history::<PKeyTree>(seed, steps, nkeys),
            "key-list" => panic_history::<PKeyList>(seed, steps, nkeys),
            "map-tree" => panic_history::<PMapTree>(seed, steps, nkeys),
            "map-list" => panic_history::<PMapList>(seed, steps, nkeys),
            "set-tree" => panic_history::<PSetTree>(seed, steps, nkeys),
            "set-list" => panic_history::<PSetList>(seed, steps, nkeys),
            "seg" => panic_history::<PSeg>(seed, steps, nkeys),
            _ => Err("unknown collection".to_string()),
        }?;
    }
    Ok((seeds, inj))
}

fn main() {
    let args: Vec<String> = std::env::args().collect();
    match args.get(1).map(|s| s.as_str()) {
        Some("clear-expired") => {
            let max_n: usize = args[2].parse().unwrap();
            let tp: i32 = args[3].parse().unwrap();
            let (cases, nontrivial, fail) = clear_expired_bounded(max_n, tp);
            match fail {
                None => println!("{{\"ok\": true, \"cases\": {}, \"nontrivial\": {}, \"max_n\": {}, \"tpoints\": {}}}", cases, nontrivial, max_n, tp),
                Some(f) => { println!("{{\"ok\": false, \"cases\": {}, \"counterexample\": {:?}}}", cases, f); std::process::exit(1); }
            }
        }
        Some("clear-expired-panic") => {
            let max_n: usize = args[2].parse().unwrap();
            let tp: i32 = args[3].parse().unwrap();
            let (cases, injected, fail) = clear_expired_panic_bounded(max_n, tp);
            match fail {
                None => println!("{{\"ok\": true, \"cases\": {}, \"nontrivial\": {}, \"max_n\": {}, \"tpoints\": {}}}", cases, injected, max_n, tp),
                Some(f) => { println!("{{\"ok\": false, \"cases\": {}, \"counterexample\": {:?}}}", cases, f); std::process::exit(1); }
            }
        }
        Some("explore") => {
            let seeds: u64 = args[3].parse().unwrap();
            let steps: usize = args[4].parse().unwrap();
            watchdog(30);
            for a in args.iter().skip(5) {
                if a == "continue" { PAST_INV.store(true, std::sync::atomic::Ordering::Relaxed); }
                if let Some(f) = a.strip_prefix("focus=") { if let Ok(mut g) = FOCUS.lock() { *g = f.split(',').map(|x| x.to_string()).collect(); } }
            }
            // a panic of the real code (debug assertion, overflow, out-of-bounds) is a failing input too
            let which = args[2].clone();
            // a panic of the real code (debug assertion, overflow, out-of-bounds / unsafe-precondition check) is a failing input
            // too; the hook reports it together with the history, also when the panic cannot unwind (the process aborts)
            std::panic::set_hook(Box::new(|info| {
                let h = HIST.lock().map(|g| g.clone()).unwrap_or_default();
                let msg = format!("[C10] {}-> the real code panicked: {}", h, info).replace('\n', " ");
                println!("{{\"ok\": false, \"counterexample\": {:?}}}", msg);
                use std::io::Write; let _ = std::io::stdout().flush();
            }));
            let r = std::panic::catch_unwind(move || explore(&which, seeds, steps));
            match r {
                Ok(Ok(n)) => println!("{{\"ok\": true, \"histories\": {}}}", n),
                Ok(Err(e)) => { println!("{{\"ok\": false, \"counterexample\": {:?}}}", e); std::process::exit(1); }
                Err(_) => { std::process::exit(1); }
            }
        }
        Some("explore-clear") => {
            let seeds: u64 = args[3].parse().unwrap();
            let steps: usize = args[4].parse().unwrap();
            watchdog(30);
            std::panic::set_hook(Box::new(|info| {
                let h = HIST.lock().map(|g| g.clone()).unwrap_or_default();
                let msg = format!("[C10] {}-> the real code panicked: {}", h, info).replace('\n', " ");
                println!("{{\"ok\": false, \"counterexample\": {:?}}}", msg);
                use std::io::Write; let _ = std::io::stdout().flush();
            }));
            let which = args[2].clone();
            let all = ["key-tree", "key-list", "map-tree", "map-list", "set-tree", "set-list", "seg"];
            let list: Vec<&str> = if which == "all" { all.to_vec() } else { vec![which.as_str()] };
            let mut total = (0u64, 0u64);
            for w in list {
                match std::panic::catch_unwind(|| explore_clear(w, seeds, steps)) {
                    Ok(Ok((h, c))) => { total.0 += h; total.1 += c; }
                    Ok(Err(e)) => { println!("{{\"ok\": false, \"counterexample\": {:?}}}", e); std::process::exit(1); }
                    Err(_) => { std::process::exit(1); }
                }
            }
            println!("{{\"ok\": true, \"histories\": {}, \"comparisons\": {}}}", total.0, total.1);
        }
        Some("explore-panic") => {
            let seeds: u64 = args[3].parse().unwrap();
            let steps: usize = args[4].parse().unwrap();
            std::panic::set_hook(Box::new(|info| { let m = format!("{}", info).replace('\n', " "); LASTPANIC.with(|l| *l.borrow_mut() = m); }));
            let which = args[2].clone();
            let all = ["key-tree", "key-list", "map-tree", "map-list", "set-tree", "set-list", "seg"];
            let list: Vec<&str> = if which == "all" { all.to_vec() } else { vec![which.as_str()] };
            let mut total = (0u64, 0u64);
            for w in list {
                match std::panic::catch_unwind(|| explore_panic(w, seeds, steps)) {
                    Ok(Ok((h, i))) => { total.0 += h; total.1 += i; }
                    Ok(Err(e)) => { println!("{{\"ok\": false, \"counterexample\": {:?}}}", e); std::process::exit(1); }
                    Err(_) => { let h = HIST.lock().map(|g| g.clone()).unwrap_or_default(); println!("{{\"ok\": false, \"counterexample\": {:?}}}", format!("[C10] {} -> the real code panicked outside the injected callback: {}", h, LASTPANIC.with(|l| l.borrow().clone()))); std::process::exit(1); }
                }
            }
            println!("{{\"ok\": true, \"histories\": {}, \"injections\": {}}}", total.0, total.1);
        }
        Some("finding") => {
            match finding(&args[2]) {
                Ok(m) => println!("PASS {} {}", args[2], m),
                Err(m) => { println!("FAIL {} {}", args[2], m); std::process::exit(1); }
            }
        }
        _ => { eprintln!("usage: replay clear-expired <max_n> <tpoints> | finding <F1..F6>"); std::process::exit(2); }
    }
    let _ = (MapTree::<i32, i32>::new(8).is_empty(),);
}
