use std::marker::PhantomData;
use crate::{Expiration, ExpiredVal};

#[derive(Clone, Copy)]
pub(super) struct Entity<E, V> {
    pub(super) val: V,
    pub(super) mask: u64,
    phantom_data: PhantomData<E>,
}

impl<E: Expiration, V: ExpiredVal<E>> Entity<E, V> {
    #[inline]
    pub(super) fn new(val: V, mask: u64) -> Self {
        Self { val, mask, phantom_data: Default::default() }
    }
}