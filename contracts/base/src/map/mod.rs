pub mod sort;
pub mod tree;
pub mod list;
mod entity;
mod node;
mod pool;