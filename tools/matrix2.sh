#!/bin/bash
# every claimed check whose inputs a seeded change touches, against a scratch copy of /repo with the change applied (never /repo);
# the other checks read byte-identical text, their verdict is the unchanged tree's (OK).  -> seeded/<name>/matrix.txt
# usage: tools/matrix2.sh '<glob under seeded/>' [parallel]
cd "$(dirname "$(realpath "$0")")/.."
export VROOT=$PWD
IDS=$(python3 -c "import json; print(' '.join(c['property_id'] for c in json.load(open('MANIFEST.json'))['checks']))")
run_one() {
  d=$1; name=$(basename $d); R=/var/tmp/seedrepos_m/$name
  rm -rf $R; mkdir -p $R; cp -r /repo/src /repo/Cargo.toml $R/
  (cd $R && patch -p1 -s < $VROOT/$d/patch.diff) || { echo "patch failed" > $d/matrix.txt; return; }
  REL=$(python3 tools/relevant_checks.py $d/patch.diff)
  : > $d/matrix.txt.tmp
  for id in $IDS; do
    case " $REL " in *" $id "*) ;; *) echo "$id OK untouched" >> $d/matrix.txt.tmp; continue;; esac
    out=$(bin/check $id --tier quick --repo $R 2>&1 | grep -v "^WARNING")
    v=$(echo "$out" | grep -o "^VIOLATION\|^OK\|^INCONCLUSIVE" | head -1)
    tail=$(echo "$out" | grep "^VIOLATION" | grep -o "no-failing-input-found" | head -1)
    echo "$id ${v:-ERROR} $tail" >> $d/matrix.txt.tmp
  done
  mv $d/matrix.txt.tmp $d/matrix.txt
  rm -rf $R
}
export -f run_one; export IDS
ls -d seeded/$1 | xargs -P ${2:-3} -I{} bash -c 'run_one {}'
echo MATRIX-DONE
