#[derive(Clone)]
pub(super) struct Entity<K, V> {
    pub(super) key: K,
    pub(super) val: V,
}

impl<K: Copy, V: Clone> Entity<K, V> {
    #[inline]
    pub(super) fn new(key: K, val: V) -> Self {
        Self { key, val }
    }
}