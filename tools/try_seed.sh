#!/bin/bash
# run checks against a seeded change: $1 = dir with patch.diff, $2.. = property ids (default: all claimed)
set -u
D=$(realpath $1); shift
cd /verif
git -C /repo diff --quiet || { echo "/repo has uncommitted changes"; exit 2; }
git -C /repo apply $D/patch.diff || { echo "PATCH DOES NOT APPLY"; exit 2; }
IDS="$@"
[ -z "$IDS" ] && IDS=$(python3 -c "import json; print(' '.join(c['property_id'] for c in json.load(open('MANIFEST.json'))['checks']))")
for id in $IDS; do
  out=$(VERIF_REPO=/repo bin/check $id --tier quick 2>&1 | grep -v "^WARNING" | tail -4 | tr '\n' '|')
  echo "$id rc=$? :: ${out:0:420}"
done
git -C /repo checkout -- .
