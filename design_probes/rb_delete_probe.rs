use vstd::prelude::*;
verus! {
mod map {
use vstd::prelude::*;
use std::cmp::Ordering;
use vstd::std_specs::cmp::*;

pub const EMPTY_REF: u32 = u32::MAX;
const NIL_INDEX: u32 = 0;

#[derive(PartialEq, Clone, Copy)]
pub enum Color { Red, Black }

pub assume_specification[ <Color as PartialEq>::eq ](a: &Color, b: &Color) -> (r: bool)
    ensures r == (*a == *b);

pub struct Entity<K, V> { pub key: K, pub val: V }

pub struct Node<K, V> {
    pub parent: u32,
    pub left: u32,
    pub right: u32,
    pub color: Color,
    pub entity: Entity<K, V>,
}

pub struct Pool<K, V> {
    pub buffer: Vec<Node<K, V>>,
    pub unused: Vec<u32>,
}

pub ghost struct NG { pub pos: int, pub a: int, pub b: int, pub bh: int }
pub ghost struct G { pub ord: Seq<u32>, pub ng: Seq<NG> }

pub struct MapTree<K, V> {
    pub store: Pool<K, V>,
    pub root: u32,
    pub g: Ghost<G>,
}

pub open spec fn key_lt<K: Ord>(a: K, b: K) -> bool { a.cmp_spec(&b) == Ordering::Less }

pub type Buf<K, V> = Seq<Node<K, V>>;

pub open spec fn in_tree<K, V>(buf: Buf<K, V>, g: G, i: int) -> bool {
    &&& 0 <= i < buf.len()
    &&& 0 <= g.ng[i].pos < g.ord.len()
    &&& g.ord[g.ng[i].pos] as int == i
}

pub open spec fn link_in_tree<K, V>(buf: Buf<K, V>, g: G, l: u32) -> bool {
    l != EMPTY_REF && in_tree(buf, g, l as int)
}

// local structural condition of an in-tree node
pub open spec fn node_ok<K, V>(buf: Buf<K, V>, g: G, root: u32, i: int) -> bool {
    let nd = buf[i];
    let p = g.ng[i].pos;
    let a = g.ng[i].a;
    let b = g.ng[i].b;
    &&& 0 <= a <= p < b <= g.ord.len()
    &&& if a == p { nd.left == EMPTY_REF } else {
            &&& link_in_tree(buf, g, nd.left)
            &&& g.ng[nd.left as int].a == a && g.ng[nd.left as int].b == p
            &&& buf[nd.left as int].parent as int == i
        }
    &&& if p + 1 == b { nd.right == EMPTY_REF } else {
            &&& link_in_tree(buf, g, nd.right)
            &&& g.ng[nd.right as int].a == p + 1 && g.ng[nd.right as int].b == b
            &&& buf[nd.right as int].parent as int == i
        }
    &&& if nd.parent == EMPTY_REF { i == root as int } else {
            &&& i != root as int
            &&& link_in_tree(buf, g, nd.parent)
            &&& (buf[nd.parent as int].left as int == i || buf[nd.parent as int].right as int == i)
        }
}

#[verifier::opaque]
pub open spec fn sorted<K: Ord, V>(buf: Buf<K, V>, g: G) -> bool {
    forall|q1: int, q2: int| 0 <= q1 < q2 < g.ord.len() && g.ord[q1] != 0u32 && g.ord[q2] != 0u32
        ==> key_lt(#[trigger] buf[g.ord[q1] as int].entity.key, #[trigger] buf[g.ord[q2] as int].entity.key)
}

#[verifier::opaque]
pub open spec fn sinv<K: Ord, V>(buf: Buf<K, V>, g: G, root: u32) -> bool {
    &&& g.ng.len() == buf.len()
    &&& 1 <= buf.len() < EMPTY_REF
    &&& forall|q: int| 0 <= q < g.ord.len() ==> 0 <= (#[trigger] g.ord[q]) as int && (g.ord[q] as int) < buf.len() && g.ng[g.ord[q] as int].pos == q
    &&& forall|i: int| in_tree(buf, g, i) ==> #[trigger] node_ok(buf, g, root, i)
    &&& if g.ord.len() == 0 { root == EMPTY_REF } else {
            &&& link_in_tree(buf, g, root)
            &&& g.ng[root as int].a == 0 && g.ng[root as int].b == g.ord.len()
            &&& buf[root as int].parent == EMPTY_REF
        }
    &&& sorted(buf, g)
}

pub open spec fn same_payload<K, V>(b1: Buf<K, V>, b0: Buf<K, V>) -> bool {
    &&& b1.len() == b0.len()
    &&& forall|i: int| 0 <= i < b1.len() ==> (#[trigger] b1[i]).color == b0[i].color && b1[i].entity == b0[i].entity
}


pub open spec fn bh_of(g: G, l: u32) -> int { if l == EMPTY_REF { 0 } else { g.ng[l as int].bh } }
pub open spec fn is_blk<K, V>(buf: Buf<K, V>, l: u32) -> bool { l == EMPTY_REF || buf[l as int].color == Color::Black }
pub open spec fn blk(c: Color) -> int { if c == Color::Black { 1 } else { 0 } }

// local red-black condition at in-tree node i; `exc` is the slot exempt from the red-red test (-1: none)
pub open spec fn color_ok<K, V>(buf: Buf<K, V>, g: G, i: int, exc: int) -> bool {
    let nd = buf[i];
    &&& g.ng[i].bh >= 0
    &&& bh_of(g, nd.left) == bh_of(g, nd.right)
    &&& g.ng[i].bh == bh_of(g, nd.left) + blk(nd.color)
    &&& nd.color == Color::Red ==> (nd.left as int == exc || is_blk(buf, nd.left)) && (nd.right as int == exc || is_blk(buf, nd.right))
}

#[verifier::opaque]
pub open spec fn cinv<K, V>(buf: Buf<K, V>, g: G, exc: int) -> bool {
    forall|i: int| in_tree(buf, g, i) ==> #[trigger] color_ok(buf, g, i, exc)
}

pub open spec fn same_entities<K, V>(b1: Buf<K, V>, b0: Buf<K, V>) -> bool {
    &&& b1.len() == b0.len()
    &&& forall|i: int| 0 <= i < b1.len() ==> (#[trigger] b1[i]).entity == b0[i].entity
}

pub open spec fn range_len(g: G, i: int) -> int { g.ng[i].b - g.ng[i].a }


pub open spec fn same_struct<K, V>(b1: Buf<K, V>, g1: G, b0: Buf<K, V>, g0: G) -> bool {
    &&& b1.len() == b0.len()
    &&& g1.ord == g0.ord
    &&& g1.ng.len() == g0.ng.len()
    &&& forall|i: int| 0 <= i < b1.len() ==> {
            &&& (#[trigger] b1[i]).parent == b0[i].parent && b1[i].left == b0[i].left && b1[i].right == b0[i].right
            &&& b1[i].entity == b0[i].entity
        }
    &&& forall|i: int| 0 <= i < g1.ng.len() ==> {
            &&& (#[trigger] g1.ng[i]).pos == g0.ng[i].pos && g1.ng[i].a == g0.ng[i].a && g1.ng[i].b == g0.ng[i].b
        }
}

// recolouring and re-assigning ghost black heights does not disturb the structural invariant
pub proof fn lemma_sinv_same_struct<K: Ord, V>(b1: Buf<K, V>, g1: G, b0: Buf<K, V>, g0: G, r0: u32)
    requires sinv(b0, g0, r0), same_struct(b1, g1, b0, g0),
    ensures sinv(b1, g1, r0),
{
    reveal(sinv);
    assert(sorted(b1, g1)) by { reveal(sorted); }
    assert forall|i: int| in_tree(b1, g1, i) implies #[trigger] node_ok(b1, g1, r0, i) by {
        assert(in_tree(b0, g0, i));
        assert(node_ok(b0, g0, r0, i));
    }
}

// a red-red exemption that is no longer needed can be dropped
pub proof fn lemma_cinv_drop_exc<K: Ord, V>(buf: Buf<K, V>, g: G, root: u32, exc: int)
    requires
        sinv(buf, g, root), cinv(buf, g, exc), in_tree(buf, g, exc),
        buf[exc].parent == EMPTY_REF || buf[buf[exc].parent as int].color == Color::Black || buf[exc].color == Color::Black,
    ensures cinv(buf, g, -1),
{
    reveal(sinv); reveal(cinv);
    assert forall|i: int| in_tree(buf, g, i) implies #[trigger] color_ok(buf, g, i, -1) by {
        assert(node_ok(buf, g, root, i));
        assert(color_ok(buf, g, i, exc));
    }
}


pub open spec fn set_color<K, V>(n: Node<K, V>, c: Color) -> Node<K, V> { Node { color: c, ..n } }
pub open spec fn add_bh(ng: Seq<NG>, i: int, d: int) -> Seq<NG> { ng.update(i, NG { bh: ng[i].bh + d, ..ng[i] }) }

// facts the insert fix-up needs about the neighbourhood of the red node n with red parent
pub proof fn lemma_insert_fix_facts<K: Ord, V>(b0: Buf<K, V>, g0: G, r0: u32, n: int)
    requires
        sinv(b0, g0, r0), cinv(b0, g0, n), in_tree(b0, g0, n),
        b0[n].parent != EMPTY_REF,
        b0[n].color == Color::Red,
        b0[b0[n].parent as int].color == Color::Red,
    ensures
        b0.len() < EMPTY_REF,
        0 <= range_len(g0, n) <= g0.ord.len(),
        ({
            let p = b0[n].parent;
            let gi = b0[p as int].parent;
            &&& link_in_tree(b0, g0, p)
            &&& (b0[p as int].left as int == n || b0[p as int].right as int == n)
            &&& b0[p as int].left != b0[p as int].right
            &&& gi != EMPTY_REF ==> {
                let u = if b0[gi as int].left == p { b0[gi as int].right } else { b0[gi as int].left };
                &&& link_in_tree(b0, g0, gi)
                &&& b0[gi as int].color == Color::Black
                &&& (b0[gi as int].left == p || b0[gi as int].right == p)
                &&& b0[gi as int].left != b0[gi as int].right
                &&& u != EMPTY_REF ==> link_in_tree(b0, g0, u) && u as int != n && u != p
                &&& range_len(g0, gi as int) > range_len(g0, n)
                &&& gi as int != n && p != gi
                &&& b0[gi as int].parent != EMPTY_REF ==> link_in_tree(b0, g0, b0[gi as int].parent)
            }
        }),
{
    reveal(sinv); reveal(cinv);
    let p = b0[n].parent;
    assert(node_ok(b0, g0, r0, n));
    assert(node_ok(b0, g0, r0, p as int));
    let gi = b0[p as int].parent;
    if gi != EMPTY_REF {
        assert(node_ok(b0, g0, r0, gi as int));
        assert(color_ok(b0, g0, gi as int, n));
        let u = if b0[gi as int].left == p { b0[gi as int].right } else { b0[gi as int].left };
        if u != EMPTY_REF { assert(node_ok(b0, g0, r0, u as int)); }
    }
}

// Case 2: parent is the root -> colour it black
pub proof fn lemma_insert_case2<K: Ord, V>(b0: Buf<K, V>, g0: G, r0: u32, n: int, b1: Buf<K, V>) -> (g1: G)
    requires
        sinv(b0, g0, r0), cinv(b0, g0, n), in_tree(b0, g0, n),
        b0[n].parent != EMPTY_REF,
        b0[n].color == Color::Red,
        b0[b0[n].parent as int].color == Color::Red,
        b0[b0[n].parent as int].parent == EMPTY_REF,
        b1 =~= b0.update(b0[n].parent as int, set_color(b0[b0[n].parent as int], Color::Black)),
    ensures
        g1 == (G { ord: g0.ord, ng: add_bh(g0.ng, b0[n].parent as int, 1) }),
        sinv(b1, g1, r0), cinv(b1, g1, -1), same_entities(b1, b0),
{
    let p = b0[n].parent as int;
    let g1 = G { ord: g0.ord, ng: add_bh(g0.ng, p, 1) };
    lemma_insert_fix_facts(b0, g0, r0, n);
    lemma_sinv_same_struct(b1, g1, b0, g0, r0);
    reveal(sinv); reveal(cinv);
    assert(node_ok(b0, g0, r0, p));
    assert(color_ok(b0, g0, p, n));
    assert forall|i: int| in_tree(b1, g1, i) implies #[trigger] color_ok(b1, g1, i, -1) by {
        assert(in_tree(b0, g0, i));
        assert(node_ok(b0, g0, r0, i));
        assert(color_ok(b0, g0, i, n));
    }
    g1
}

// Case 3: red uncle -> recolour parent, grandparent, uncle; violation moves to the grandparent
pub proof fn lemma_insert_case3<K: Ord, V>(b0: Buf<K, V>, g0: G, r0: u32, n: int, b1: Buf<K, V>) -> (g1: G)
    requires
        sinv(b0, g0, r0), cinv(b0, g0, n), in_tree(b0, g0, n),
        b0[n].parent != EMPTY_REF,
        b0[n].color == Color::Red,
        b0[b0[n].parent as int].color == Color::Red,
        b0[b0[n].parent as int].parent != EMPTY_REF,
        ({
            let p = b0[n].parent; let gi = b0[p as int].parent;
            let u = if b0[gi as int].left == p { b0[gi as int].right } else { b0[gi as int].left };
            &&& u != EMPTY_REF && b0[u as int].color == Color::Red
            &&& b1 =~= b0.update(p as int, set_color(b0[p as int], Color::Black))
                        .update(gi as int, set_color(b0[gi as int], Color::Red))
                        .update(u as int, set_color(b0[u as int], Color::Black))
        }),
    ensures
        ({
            let p = b0[n].parent; let gi = b0[p as int].parent;
            let u = if b0[gi as int].left == p { b0[gi as int].right } else { b0[gi as int].left };
            &&& g1 == (G { ord: g0.ord, ng: add_bh(add_bh(g0.ng, p as int, 1), u as int, 1) })
            &&& sinv(b1, g1, r0) && cinv(b1, g1, gi as int) && same_entities(b1, b0)
            &&& in_tree(b1, g1, gi as int)
            &&& b1[gi as int].color == Color::Red
            &&& b1[gi as int].parent == b0[gi as int].parent
            &&& range_len(g1, gi as int) > range_len(g0, n)
            &&& range_len(g1, gi as int) <= g1.ord.len()
            &&& b1[gi as int].parent != EMPTY_REF ==> link_in_tree(b1, g1, b1[gi as int].parent)
        }),
{
    let p = b0[n].parent; let gi = b0[p as int].parent;
    let u = if b0[gi as int].left == p { b0[gi as int].right } else { b0[gi as int].left };
    let g1 = G { ord: g0.ord, ng: add_bh(add_bh(g0.ng, p as int, 1), u as int, 1) };
    lemma_insert_fix_facts(b0, g0, r0, n);
    lemma_sinv_same_struct(b1, g1, b0, g0, r0);
    reveal(sinv); reveal(cinv);
    assert(node_ok(b0, g0, r0, n));
    assert(node_ok(b0, g0, r0, p as int)); assert(node_ok(b0, g0, r0, u as int)); assert(node_ok(b0, g0, r0, gi as int));
    assert(color_ok(b0, g0, p as int, n)); assert(color_ok(b0, g0, u as int, n)); assert(color_ok(b0, g0, gi as int, n));
    assert(color_ok(b1, g1, p as int, gi as int));
    assert(color_ok(b1, g1, u as int, gi as int));
    assert(color_ok(b1, g1, gi as int, gi as int));
    assert forall|i: int| in_tree(b1, g1, i) implies #[trigger] color_ok(b1, g1, i, gi as int) by {
        assert(in_tree(b0, g0, i));
        assert(node_ok(b0, g0, r0, i));
        assert(color_ok(b0, g0, i, n));
        if i != p as int && i != u as int && i != gi as int { assert(b1[i] == b0[i]); }
    }
    g1
}


// deficit form at the node n whose subtree is one black short of its ghost black height
pub open spec fn color_def<K, V>(buf: Buf<K, V>, g: G, n: int) -> bool {
    let nd = buf[n];
    &&& bh_of(g, nd.left) >= 0
    &&& bh_of(g, nd.left) == bh_of(g, nd.right)
    &&& g.ng[n].bh == bh_of(g, nd.left) + blk(nd.color) + 1
    &&& nd.color == Color::Red ==> is_blk(buf, nd.left) && is_blk(buf, nd.right)
}

#[verifier::opaque]
pub open spec fn cinv_def<K, V>(buf: Buf<K, V>, g: G, n: int) -> bool {
    &&& color_def(buf, g, n)
    &&& forall|i: int| in_tree(buf, g, i) && i != n ==> #[trigger] color_ok(buf, g, i, n)
}

// the sentinel (slot 0), if it is linked into the tree, lies inside the subtree of n
pub open spec fn nil_under(g: G, n: int) -> bool {
    0 <= g.ng[0].pos < g.ord.len() && g.ord[g.ng[0].pos] == 0u32 ==> g.ng[n].a <= g.ng[0].pos < g.ng[n].b
}

pub open spec fn sibling_of<K, V>(buf: Buf<K, V>, n: int) -> u32 {
    let p = buf[n].parent;
    if buf[p as int].left as int == n { buf[p as int].right } else { buf[p as int].left }
}

pub open spec fn same_shape_at<K, V>(b1: Buf<K, V>, b0: Buf<K, V>, n: int) -> bool {
    b1[n].left == b0[n].left && b1[n].right == b0[n].right
}

// facts the delete fix-up needs about the neighbourhood of the deficit node n (not the root)
pub proof fn lemma_del_facts<K: Ord, V>(b0: Buf<K, V>, g0: G, r0: u32, n: int)
    requires
        sinv(b0, g0, r0), cinv_def(b0, g0, n), in_tree(b0, g0, n),
        b0[n].parent != EMPTY_REF,
    ensures
        b0.len() < EMPTY_REF,
        0 <= range_len(g0, n) <= g0.ord.len(),
        n != r0 as int,
        ({
            let p = b0[n].parent;
            let s = sibling_of(b0, n);
            &&& link_in_tree(b0, g0, p)
            &&& (b0[p as int].left as int == n || b0[p as int].right as int == n)
            &&& b0[p as int].left != b0[p as int].right
            &&& link_in_tree(b0, g0, s)
            &&& s as int != n && s != p && p as int != n
            &&& b0[s as int].parent == p
            &&& range_len(g0, p as int) > range_len(g0, n)
            &&& range_len(g0, p as int) <= g0.ord.len()
            &&& b0[s as int].left != EMPTY_REF ==> link_in_tree(b0, g0, b0[s as int].left)
            &&& b0[s as int].right != EMPTY_REF ==> link_in_tree(b0, g0, b0[s as int].right)
            &&& b0[s as int].color == Color::Red ==> {
                    &&& b0[p as int].color == Color::Black
                    &&& b0[s as int].left != EMPTY_REF && b0[s as int].right != EMPTY_REF
                    &&& b0[b0[s as int].left as int].color == Color::Black
                    &&& b0[b0[s as int].right as int].color == Color::Black
                }
            &&& b0[p as int].parent != EMPTY_REF ==> link_in_tree(b0, g0, b0[p as int].parent)
        }),
{
    reveal(sinv); reveal(cinv_def);
    let p = b0[n].parent;
    assert(node_ok(b0, g0, r0, n));
    assert(node_ok(b0, g0, r0, p as int));
    assert(color_ok(b0, g0, p as int, n));
    let s = sibling_of(b0, n);
    assert(node_ok(b0, g0, r0, s as int));
    assert(color_ok(b0, g0, s as int, n));
    let sl = b0[s as int].left; let sr = b0[s as int].right;
    if sl != EMPTY_REF { assert(node_ok(b0, g0, r0, sl as int)); assert(color_ok(b0, g0, sl as int, n)); }
    if sr != EMPTY_REF { assert(node_ok(b0, g0, r0, sr as int)); assert(color_ok(b0, g0, sr as int, n)); }
}

// Case 1: the deficit reached the root: the whole tree is one black shorter, which is fine
pub proof fn lemma_del_case1<K: Ord, V>(b0: Buf<K, V>, g0: G, r0: u32, n: int) -> (g1: G)
    requires
        sinv(b0, g0, r0), cinv_def(b0, g0, n), in_tree(b0, g0, n), n == r0 as int,
    ensures
        g1 == (G { ord: g0.ord, ng: add_bh(g0.ng, n, -1) }),
        sinv(b0, g1, r0), cinv(b0, g1, -1),
{
    let g1 = G { ord: g0.ord, ng: add_bh(g0.ng, n, -1) };
    lemma_sinv_same_struct(b0, g1, b0, g0, r0);
    reveal(sinv); reveal(cinv_def); reveal(cinv);
    assert(node_ok(b0, g0, r0, n));
    assert forall|i: int| in_tree(b0, g1, i) implies #[trigger] color_ok(b0, g1, i, -1) by {
        assert(in_tree(b0, g0, i));
        assert(node_ok(b0, g0, r0, i));
        if i != n { assert(color_ok(b0, g0, i, n)); }
    }
    g1
}

// Cases 3+4: black sibling with two black children: sibling turns red; a red parent turns black (case 3),
// a black parent inherits the deficit (case 4)
pub proof fn lemma_del_case34<K: Ord, V>(b0: Buf<K, V>, g0: G, r0: u32, n: int, b1: Buf<K, V>) -> (g1: G)
    requires
        sinv(b0, g0, r0), cinv_def(b0, g0, n), in_tree(b0, g0, n),
        b0[n].parent != EMPTY_REF,
        ({
            let p = b0[n].parent; let s = sibling_of(b0, n);
            &&& b0[s as int].color == Color::Black
            &&& is_blk(b0, b0[s as int].left) && is_blk(b0, b0[s as int].right)
            &&& b1 =~= b0.update(s as int, set_color(b0[s as int], Color::Red)).update(p as int, set_color(b0[p as int], Color::Black))
        }),
        nil_under(g0, n),
    ensures
        same_shape_at(b1, b0, 0), same_shape_at(b1, b0, n), nil_under(g1, b0[n].parent as int),
        ({
            let p = b0[n].parent; let s = sibling_of(b0, n);
            &&& g1 == (G { ord: g0.ord, ng: add_bh(add_bh(g0.ng, s as int, -1), n, -1) })
            &&& sinv(b1, g1, r0) && same_entities(b1, b0)
            &&& b0[p as int].color == Color::Red ==> cinv(b1, g1, -1)
            &&& b0[p as int].color == Color::Black ==> cinv_def(b1, g1, p as int) && in_tree(b1, g1, p as int)
            &&& range_len(g1, p as int) > range_len(g0, n)
            &&& range_len(g1, p as int) <= g1.ord.len()
        }),
{
    let p = b0[n].parent; let s = sibling_of(b0, n);
    let g1 = G { ord: g0.ord, ng: add_bh(add_bh(g0.ng, s as int, -1), n, -1) };
    lemma_del_facts(b0, g0, r0, n);
    lemma_sinv_same_struct(b1, g1, b0, g0, r0);
    reveal(sinv); reveal(cinv_def); reveal(cinv);
    assert(node_ok(b0, g0, r0, n)); assert(node_ok(b0, g0, r0, p as int)); assert(node_ok(b0, g0, r0, s as int));
    assert(color_ok(b0, g0, p as int, n)); assert(color_ok(b0, g0, s as int, n));
    let gp = b0[p as int].parent;
    if gp != EMPTY_REF { assert(node_ok(b0, g0, r0, gp as int)); assert(color_ok(b0, g0, gp as int, n)); }
    if b0[p as int].color == Color::Red {
        assert(color_ok(b1, g1, n, -1));
        assert(color_ok(b1, g1, s as int, -1));
        assert(color_ok(b1, g1, p as int, -1));
        assert forall|i: int| in_tree(b1, g1, i) implies #[trigger] color_ok(b1, g1, i, -1) by {
            assert(in_tree(b0, g0, i));
            assert(node_ok(b0, g0, r0, i));
            if i != n { assert(color_ok(b0, g0, i, n)); }
            if i != n && i != p as int && i != s as int { assert(b1[i] == b0[i]); }
        }
    } else {
        assert(color_ok(b1, g1, n, p as int));
        assert(color_ok(b1, g1, s as int, p as int));
        assert(color_def(b1, g1, p as int));
        assert forall|i: int| in_tree(b1, g1, i) && i != p as int implies #[trigger] color_ok(b1, g1, i, p as int) by {
            assert(in_tree(b0, g0, i));
            assert(node_ok(b0, g0, r0, i));
            if i != n { assert(color_ok(b0, g0, i, n)); }
            if i != n && i != p as int && i != s as int { assert(b1[i] == b0[i]); }
        }
    }
    g1
}

// exact effect of rotate_left(x) on links, root and ghost ranges
pub open spec fn rot_left_rel<K, V>(b1: Buf<K, V>, g1: G, r1: u32, b0: Buf<K, V>, g0: G, r0: u32, x: int) -> bool {
    let y = b0[x].right;
    let c = b0[y as int].left;
    let p = b0[x].parent;
    &&& b1.len() == b0.len()
    &&& b1[x] == (Node { parent: y, right: c, ..b0[x] })
    &&& b1[y as int] == (Node { parent: p, left: x as u32, ..b0[y as int] })
    &&& c != EMPTY_REF ==> b1[c as int] == (Node { parent: x as u32, ..b0[c as int] })
    &&& p != EMPTY_REF ==> b1[p as int] == (if b0[p as int].left as int == x { Node { left: y, ..b0[p as int] } } else { Node { right: y, ..b0[p as int] } })
    &&& forall|i: int| 0 <= i < b1.len() && i != x && i != y as int && i != c as int && i != p as int ==> #[trigger] b1[i] == b0[i]
    &&& r1 == (if p == EMPTY_REF { y } else { r0 })
    &&& g1.ord == g0.ord
    &&& g1.ng == g0.ng
            .update(x, NG { b: g0.ng[y as int].pos, ..g0.ng[x] })
            .update(y as int, NG { a: g0.ng[x].a, ..g0.ng[y as int] })
}

pub proof fn lemma_links<K: Ord, V>(buf: Buf<K, V>, g: G, root: u32, i: int)
    requires sinv(buf, g, root), in_tree(buf, g, i),
    ensures
        node_ok(buf, g, root, i),
        buf[i].left == EMPTY_REF || link_in_tree(buf, g, buf[i].left),
        buf[i].right == EMPTY_REF || link_in_tree(buf, g, buf[i].right),
        buf[i].parent == EMPTY_REF || link_in_tree(buf, g, buf[i].parent),
        buf.len() < EMPTY_REF,
{
    reveal(sinv);
    assert(node_ok(buf, g, root, i));
}

pub proof fn lemma_rot_left<K: Ord, V>(b1: Buf<K, V>, g1: G, r1: u32, b0: Buf<K, V>, g0: G, r0: u32, x: int)
    requires
        sinv(b0, g0, r0), in_tree(b0, g0, x), b0[x].right != EMPTY_REF,
        rot_left_rel(b1, g1, r1, b0, g0, r0, x),
    ensures
        sinv(b1, g1, r1),
        same_payload(b1, b0),
{
    reveal(sinv);
    let y = b0[x].right;
    let c = b0[y as int].left;
    let p = b0[x].parent;
    assert(node_ok(b0, g0, r0, x));
    assert(node_ok(b0, g0, r0, y as int));
    if c != EMPTY_REF { assert(node_ok(b0, g0, r0, c as int)); }
    if p != EMPTY_REF { assert(node_ok(b0, g0, r0, p as int)); }
    assert(same_payload(b1, b0));
    assert(sorted(b1, g1)) by { reveal(sorted); }
    assert(node_ok(b1, g1, r1, x));
    assert(node_ok(b1, g1, r1, y as int));
    if c != EMPTY_REF { assert(node_ok(b1, g1, r1, c as int)); }
    if p != EMPTY_REF { assert(node_ok(b1, g1, r1, p as int)); }
    assert forall|i: int| in_tree(b1, g1, i) implies #[trigger] node_ok(b1, g1, r1, i) by {
        assert(in_tree(b0, g0, i));
        assert(node_ok(b0, g0, r0, i));
        if i != x && i != y as int && i != c as int && i != p as int {
            assert(b1[i] == b0[i]);
        }
    }
}


// exact effect of rotate_right(x) on links, root and ghost ranges
pub open spec fn rot_right_rel<K, V>(b1: Buf<K, V>, g1: G, r1: u32, b0: Buf<K, V>, g0: G, r0: u32, x: int) -> bool {
    let y = b0[x].left;
    let c = b0[y as int].right;
    let p = b0[x].parent;
    &&& b1.len() == b0.len()
    &&& b1[x] == (Node { parent: y, left: c, ..b0[x] })
    &&& b1[y as int] == (Node { parent: p, right: x as u32, ..b0[y as int] })
    &&& c != EMPTY_REF ==> b1[c as int] == (Node { parent: x as u32, ..b0[c as int] })
    &&& p != EMPTY_REF ==> b1[p as int] == (if b0[p as int].left as int == x { Node { left: y, ..b0[p as int] } } else { Node { right: y, ..b0[p as int] } })
    &&& forall|i: int| 0 <= i < b1.len() && i != x && i != y as int && i != c as int && i != p as int ==> #[trigger] b1[i] == b0[i]
    &&& r1 == (if p == EMPTY_REF { y } else { r0 })
    &&& g1.ord == g0.ord
    &&& g1.ng == g0.ng
            .update(x, NG { a: g0.ng[y as int].pos + 1, ..g0.ng[x] })
            .update(y as int, NG { b: g0.ng[x].b, ..g0.ng[y as int] })
}

pub proof fn lemma_rot_right<K: Ord, V>(b1: Buf<K, V>, g1: G, r1: u32, b0: Buf<K, V>, g0: G, r0: u32, x: int)
    requires
        sinv(b0, g0, r0), in_tree(b0, g0, x), b0[x].left != EMPTY_REF,
        rot_right_rel(b1, g1, r1, b0, g0, r0, x),
    ensures
        sinv(b1, g1, r1),
        same_payload(b1, b0),
{
    reveal(sinv);
    let y = b0[x].left;
    let c = b0[y as int].right;
    let p = b0[x].parent;
    assert(node_ok(b0, g0, r0, x));
    assert(node_ok(b0, g0, r0, y as int));
    if c != EMPTY_REF { assert(node_ok(b0, g0, r0, c as int)); }
    if p != EMPTY_REF { assert(node_ok(b0, g0, r0, p as int)); }
    assert(same_payload(b1, b0));
    assert(sorted(b1, g1)) by { reveal(sorted); }
    assert(node_ok(b1, g1, r1, x));
    assert(node_ok(b1, g1, r1, y as int));
    if c != EMPTY_REF { assert(node_ok(b1, g1, r1, c as int)); }
    if p != EMPTY_REF { assert(node_ok(b1, g1, r1, p as int)); }
    assert forall|i: int| in_tree(b1, g1, i) implies #[trigger] node_ok(b1, g1, r1, i) by {
        assert(in_tree(b0, g0, i));
        assert(node_ok(b0, g0, r0, i));
        if i != x && i != y as int && i != c as int && i != p as int {
            assert(b1[i] == b0[i]);
        }
    }
}


// normal form before the final rotation: x is the red LEFT child of red p, p the LEFT child of black gi, uncle black
pub open spec fn ins_outer_left<K: Ord, V>(b: Buf<K, V>, g: G, r: u32, x: int) -> bool {
    let p = b[x].parent;
    let gi = b[p as int].parent;
    &&& sinv(b, g, r) && cinv(b, g, x) && in_tree(b, g, x)
    &&& b[x].color == Color::Red
    &&& p != EMPTY_REF && b[p as int].color == Color::Red && b[p as int].left as int == x
    &&& gi != EMPTY_REF && b[gi as int].left == p && is_blk(b, b[gi as int].right)
}

// Case 4a: n is the inner (right) child of p, p the left child of gi: rotate_left(p) yields the outer normal form
pub proof fn lemma_ins_inner_left<K: Ord, V>(b0: Buf<K, V>, g0: G, r0: u32, n: int, b1: Buf<K, V>, g1: G, r1: u32)
    requires
        sinv(b0, g0, r0), cinv(b0, g0, n), in_tree(b0, g0, n),
        b0[n].parent != EMPTY_REF,
        b0[n].color == Color::Red,
        b0[b0[n].parent as int].color == Color::Red,
        b0[b0[n].parent as int].parent != EMPTY_REF,
        ({
            let p = b0[n].parent; let gi = b0[p as int].parent;
            &&& b0[gi as int].left == p && is_blk(b0, b0[gi as int].right)
            &&& b0[p as int].right as int == n
            &&& rot_left_rel(b1, g1, r1, b0, g0, r0, p as int)
        }),
        sinv(b1, g1, r1),
    ensures
        ins_outer_left(b1, g1, r1, b0[n].parent as int),
        b1[b0[n].parent as int].parent as int == n,
        b1[n].parent == b0[b0[n].parent as int].parent,
        same_entities(b1, b0),
{
    let p = b0[n].parent; let gi = b0[p as int].parent;
    lemma_insert_fix_facts(b0, g0, r0, n);
    reveal(sinv); reveal(cinv);
    assert(node_ok(b0, g0, r0, n)); assert(node_ok(b0, g0, r0, p as int)); assert(node_ok(b0, g0, r0, gi as int));
    assert(color_ok(b0, g0, n, n)); assert(color_ok(b0, g0, p as int, n)); assert(color_ok(b0, g0, gi as int, n));
    let c = b0[n].left;
    if c != EMPTY_REF { assert(node_ok(b0, g0, r0, c as int)); assert(color_ok(b0, g0, c as int, n)); }
    assert(color_ok(b1, g1, n, p as int));
    assert(color_ok(b1, g1, p as int, p as int));
    assert(color_ok(b1, g1, gi as int, p as int));
    assert forall|i: int| in_tree(b1, g1, i) implies #[trigger] color_ok(b1, g1, i, p as int) by {
        assert(in_tree(b0, g0, i));
        assert(node_ok(b0, g0, r0, i));
        assert(color_ok(b0, g0, i, n));
        if i != n && i != p as int && i != gi as int && i != c as int { assert(b1[i] == b0[i]); }
    }
}

// Case 5a: rotate_right(gi), then p black and gi red restores the full invariant
pub proof fn lemma_ins_outer_left<K: Ord, V>(b1: Buf<K, V>, g1: G, r1: u32, x: int, b2: Buf<K, V>, g2: G, r2: u32, b3: Buf<K, V>) -> (g3: G)
    requires
        ins_outer_left(b1, g1, r1, x),
        ({
            let p = b1[x].parent; let gi = b1[p as int].parent;
            &&& rot_right_rel(b2, g2, r2, b1, g1, r1, gi as int)
            &&& sinv(b2, g2, r2)
            &&& b3 =~= b2.update(p as int, set_color(b2[p as int], Color::Black)).update(gi as int, set_color(b2[gi as int], Color::Red))
        }),
    ensures
        ({
            let p = b1[x].parent; let gi = b1[p as int].parent;
            g3 == (G { ord: g2.ord, ng: add_bh(add_bh(g2.ng, p as int, 1), gi as int, -1) })
        }),
        sinv(b3, g3, r2), cinv(b3, g3, -1), same_entities(b3, b1),
{
    let p = b1[x].parent; let gi = b1[p as int].parent;
    let g3 = G { ord: g2.ord, ng: add_bh(add_bh(g2.ng, p as int, 1), gi as int, -1) };
    reveal(sinv); reveal(cinv);
    assert(node_ok(b1, g1, r1, x)); assert(node_ok(b1, g1, r1, p as int)); assert(node_ok(b1, g1, r1, gi as int));
    assert(color_ok(b1, g1, x, x)); assert(color_ok(b1, g1, p as int, x)); assert(color_ok(b1, g1, gi as int, x));
    let c = b1[p as int].right;
    let u = b1[gi as int].right;
    let gg = b1[gi as int].parent;
    if c != EMPTY_REF { assert(node_ok(b1, g1, r1, c as int)); assert(color_ok(b1, g1, c as int, x)); }
    if u != EMPTY_REF { assert(node_ok(b1, g1, r1, u as int)); assert(color_ok(b1, g1, u as int, x)); }
    if gg != EMPTY_REF { assert(node_ok(b1, g1, r1, gg as int)); assert(color_ok(b1, g1, gg as int, x)); }
    assert(p != gi);
    lemma_sinv_same_struct(b3, g3, b2, g2, r2);
    assert(color_ok(b3, g3, p as int, -1));
    assert(color_ok(b3, g3, gi as int, -1));
    assert(color_ok(b3, g3, x, -1));
    if gg != EMPTY_REF { assert(color_ok(b3, g3, gg as int, -1)); }
    assert forall|i: int| in_tree(b3, g3, i) implies #[trigger] color_ok(b3, g3, i, -1) by {
        assert(in_tree(b1, g1, i));
        assert(node_ok(b1, g1, r1, i));
        assert(color_ok(b1, g1, i, x));
        if i != x && i != p as int && i != gi as int && i != c as int && i != gg as int { assert(b3[i] == b1[i]); }
    }
    g3
}

// normal form before the final rotation: x is the red RIGHT child of red p, p the RIGHT child of black gi, uncle black
pub open spec fn ins_outer_right<K: Ord, V>(b: Buf<K, V>, g: G, r: u32, x: int) -> bool {
    let p = b[x].parent;
    let gi = b[p as int].parent;
    &&& sinv(b, g, r) && cinv(b, g, x) && in_tree(b, g, x)
    &&& b[x].color == Color::Red
    &&& p != EMPTY_REF && b[p as int].color == Color::Red && b[p as int].right as int == x
    &&& gi != EMPTY_REF && b[gi as int].right == p && is_blk(b, b[gi as int].left)
}

// Case 4a: n is the inner (right) child of p, p the right child of gi: rotate_right(p) yields the outer normal form
pub proof fn lemma_ins_inner_right<K: Ord, V>(b0: Buf<K, V>, g0: G, r0: u32, n: int, b1: Buf<K, V>, g1: G, r1: u32)
    requires
        sinv(b0, g0, r0), cinv(b0, g0, n), in_tree(b0, g0, n),
        b0[n].parent != EMPTY_REF,
        b0[n].color == Color::Red,
        b0[b0[n].parent as int].color == Color::Red,
        b0[b0[n].parent as int].parent != EMPTY_REF,
        ({
            let p = b0[n].parent; let gi = b0[p as int].parent;
            &&& b0[gi as int].right == p && is_blk(b0, b0[gi as int].left)
            &&& b0[p as int].left as int == n
            &&& rot_right_rel(b1, g1, r1, b0, g0, r0, p as int)
        }),
        sinv(b1, g1, r1),
    ensures
        ins_outer_right(b1, g1, r1, b0[n].parent as int),
        b1[b0[n].parent as int].parent as int == n,
        b1[n].parent == b0[b0[n].parent as int].parent,
        same_entities(b1, b0),
{
    let p = b0[n].parent; let gi = b0[p as int].parent;
    lemma_insert_fix_facts(b0, g0, r0, n);
    reveal(sinv); reveal(cinv);
    assert(node_ok(b0, g0, r0, n)); assert(node_ok(b0, g0, r0, p as int)); assert(node_ok(b0, g0, r0, gi as int));
    assert(color_ok(b0, g0, n, n)); assert(color_ok(b0, g0, p as int, n)); assert(color_ok(b0, g0, gi as int, n));
    let c = b0[n].right;
    if c != EMPTY_REF { assert(node_ok(b0, g0, r0, c as int)); assert(color_ok(b0, g0, c as int, n)); }
    assert(color_ok(b1, g1, n, p as int));
    assert(color_ok(b1, g1, p as int, p as int));
    assert(color_ok(b1, g1, gi as int, p as int));
    assert forall|i: int| in_tree(b1, g1, i) implies #[trigger] color_ok(b1, g1, i, p as int) by {
        assert(in_tree(b0, g0, i));
        assert(node_ok(b0, g0, r0, i));
        assert(color_ok(b0, g0, i, n));
        if i != n && i != p as int && i != gi as int && i != c as int { assert(b1[i] == b0[i]); }
    }
}

// Case 5a: rotate_left(gi), then p black and gi red restores the full invariant
pub proof fn lemma_ins_outer_right<K: Ord, V>(b1: Buf<K, V>, g1: G, r1: u32, x: int, b2: Buf<K, V>, g2: G, r2: u32, b3: Buf<K, V>) -> (g3: G)
    requires
        ins_outer_right(b1, g1, r1, x),
        ({
            let p = b1[x].parent; let gi = b1[p as int].parent;
            &&& rot_left_rel(b2, g2, r2, b1, g1, r1, gi as int)
            &&& sinv(b2, g2, r2)
            &&& b3 =~= b2.update(p as int, set_color(b2[p as int], Color::Black)).update(gi as int, set_color(b2[gi as int], Color::Red))
        }),
    ensures
        ({
            let p = b1[x].parent; let gi = b1[p as int].parent;
            g3 == (G { ord: g2.ord, ng: add_bh(add_bh(g2.ng, p as int, 1), gi as int, -1) })
        }),
        sinv(b3, g3, r2), cinv(b3, g3, -1), same_entities(b3, b1),
{
    let p = b1[x].parent; let gi = b1[p as int].parent;
    let g3 = G { ord: g2.ord, ng: add_bh(add_bh(g2.ng, p as int, 1), gi as int, -1) };
    reveal(sinv); reveal(cinv);
    assert(node_ok(b1, g1, r1, x)); assert(node_ok(b1, g1, r1, p as int)); assert(node_ok(b1, g1, r1, gi as int));
    assert(color_ok(b1, g1, x, x)); assert(color_ok(b1, g1, p as int, x)); assert(color_ok(b1, g1, gi as int, x));
    let c = b1[p as int].left;
    let u = b1[gi as int].left;
    let gg = b1[gi as int].parent;
    if c != EMPTY_REF { assert(node_ok(b1, g1, r1, c as int)); assert(color_ok(b1, g1, c as int, x)); }
    if u != EMPTY_REF { assert(node_ok(b1, g1, r1, u as int)); assert(color_ok(b1, g1, u as int, x)); }
    if gg != EMPTY_REF { assert(node_ok(b1, g1, r1, gg as int)); assert(color_ok(b1, g1, gg as int, x)); }
    assert(p != gi);
    lemma_sinv_same_struct(b3, g3, b2, g2, r2);
    assert(color_ok(b3, g3, p as int, -1));
    assert(color_ok(b3, g3, gi as int, -1));
    assert(color_ok(b3, g3, x, -1));
    if gg != EMPTY_REF { assert(color_ok(b3, g3, gg as int, -1)); }
    assert forall|i: int| in_tree(b3, g3, i) implies #[trigger] color_ok(b3, g3, i, -1) by {
        assert(in_tree(b1, g1, i));
        assert(node_ok(b1, g1, r1, i));
        assert(color_ok(b1, g1, i, x));
        if i != x && i != p as int && i != gi as int && i != c as int && i != gg as int { assert(b3[i] == b1[i]); }
    }
    g3
}


// Case 2 (n is the LEFT child): red sibling -> sibling black, parent red, rotate_left(parent); the deficit stays at n
#[verifier::rlimit(60)]
pub proof fn lemma_del_red_sibling_left<K: Ord, V>(b0: Buf<K, V>, g0: G, r0: u32, n: int, bm: Buf<K, V>, b1: Buf<K, V>, g1r: G, r1: u32) -> (g1: G)
    requires
        sinv(b0, g0, r0), cinv_def(b0, g0, n), in_tree(b0, g0, n),
        b0[n].parent != EMPTY_REF,
        ({
            let p = b0[n].parent; let s = b0[p as int].right;
            &&& b0[p as int].left as int == n
            &&& b0[s as int].color == Color::Red
            &&& bm =~= b0.update(s as int, set_color(b0[s as int], Color::Black)).update(p as int, set_color(b0[p as int], Color::Red))
            &&& rot_left_rel(b1, g1r, r1, bm, g0, r0, p as int)
        }),
        sinv(b1, g1r, r1),
        nil_under(g0, n),
    ensures
        same_shape_at(b1, b0, 0), nil_under(g1, n), range_len(g1, n) == range_len(g0, n),
        ({
            let p = b0[n].parent; let s = b0[p as int].right;
            &&& g1 == (G { ord: g1r.ord, ng: add_bh(add_bh(g1r.ng, p as int, -1), s as int, 1) })
            &&& sinv(b1, g1, r1) && cinv_def(b1, g1, n) && in_tree(b1, g1, n)
            &&& b1[n] == b0[n]
            &&& b1[p as int].left as int == n
            &&& b1[p as int].color == Color::Red
            &&& b1[p as int].right == b0[s as int].left
            &&& b1[p as int].right != EMPTY_REF
            &&& b1[b1[p as int].right as int].color == Color::Black
            &&& same_entities(b1, b0)
            &&& g1.ord == g0.ord
        }),
{
    let p = b0[n].parent; let s = b0[p as int].right;
    let g1 = G { ord: g1r.ord, ng: add_bh(add_bh(g1r.ng, p as int, -1), s as int, 1) };
    lemma_del_facts(b0, g0, r0, n);
    lemma_sinv_same_struct(b1, g1, b1, g1r, r1);
    reveal(sinv); reveal(cinv_def);
    let sl = b0[s as int].left; let sr = b0[s as int].right; let gp = b0[p as int].parent;
    assert(node_ok(b0, g0, r0, n)); assert(node_ok(b0, g0, r0, p as int)); assert(node_ok(b0, g0, r0, s as int));
    assert(node_ok(b0, g0, r0, sl as int)); assert(node_ok(b0, g0, r0, sr as int));
    assert(color_ok(b0, g0, p as int, n)); assert(color_ok(b0, g0, s as int, n));
    assert(color_ok(b0, g0, sl as int, n)); assert(color_ok(b0, g0, sr as int, n));
    if gp != EMPTY_REF { assert(node_ok(b0, g0, r0, gp as int)); assert(color_ok(b0, g0, gp as int, n)); }
    assert(color_def(b1, g1, n));
    assert(color_ok(b1, g1, p as int, n));
    assert(color_ok(b1, g1, s as int, n));
    assert(color_ok(b1, g1, sl as int, n));
    if gp != EMPTY_REF { assert(color_ok(b1, g1, gp as int, n)); }
    assert forall|i: int| in_tree(b1, g1, i) && i != n implies #[trigger] color_ok(b1, g1, i, n) by {
        assert(in_tree(b0, g0, i));
        assert(node_ok(b0, g0, r0, i));
        assert(color_ok(b0, g0, i, n));
        if i != p as int && i != s as int && i != sl as int && i != gp as int { assert(b1[i] == b0[i]); }
    }
    g1
}

// Case 5 (n LEFT child): black sibling, outer (right) nephew black, inner (left) nephew red ->
// inner nephew black, sibling red, rotate_right(sibling); afterwards the outer nephew is red
#[verifier::rlimit(60)]
pub proof fn lemma_del_case5_left<K: Ord, V>(b0: Buf<K, V>, g0: G, r0: u32, n: int, bm: Buf<K, V>, b1: Buf<K, V>, g1r: G, r1: u32) -> (g1: G)
    requires
        sinv(b0, g0, r0), cinv_def(b0, g0, n), in_tree(b0, g0, n),
        b0[n].parent != EMPTY_REF,
        ({
            let p = b0[n].parent; let s = b0[p as int].right; let sl = b0[s as int].left;
            &&& b0[p as int].left as int == n
            &&& b0[s as int].color == Color::Black
            &&& is_blk(b0, b0[s as int].right)
            &&& !is_blk(b0, sl)
            &&& bm =~= b0.update(sl as int, set_color(b0[sl as int], Color::Black)).update(s as int, set_color(b0[s as int], Color::Red))
            &&& rot_right_rel(b1, g1r, r1, bm, g0, r0, s as int)
        }),
        sinv(b1, g1r, r1),
        nil_under(g0, n),
    ensures
        same_shape_at(b1, b0, 0), nil_under(g1, n), range_len(g1, n) == range_len(g0, n),
        ({
            let p = b0[n].parent; let s = b0[p as int].right; let sl = b0[s as int].left;
            &&& g1 == (G { ord: g1r.ord, ng: add_bh(add_bh(g1r.ng, sl as int, 1), s as int, -1) })
            &&& sinv(b1, g1, r1) && cinv_def(b1, g1, n) && in_tree(b1, g1, n)
            &&& b1[n] == b0[n]
            &&& b1[p as int].left as int == n
            &&& b1[p as int].color == b0[p as int].color
            &&& b1[p as int].right == sl
            &&& b1[sl as int].color == Color::Black
            &&& b1[sl as int].right == s
            &&& b1[s as int].color == Color::Red
            &&& same_entities(b1, b0)
            &&& g1.ord == g0.ord
        }),
{
    let p = b0[n].parent; let s = b0[p as int].right; let sl = b0[s as int].left;
    let g1 = G { ord: g1r.ord, ng: add_bh(add_bh(g1r.ng, sl as int, 1), s as int, -1) };
    lemma_del_facts(b0, g0, r0, n);
    lemma_sinv_same_struct(b1, g1, b1, g1r, r1);
    reveal(sinv); reveal(cinv_def);
    let sr = b0[s as int].right; let slr = b0[sl as int].right; let sll = b0[sl as int].left;
    assert(node_ok(b0, g0, r0, n)); assert(node_ok(b0, g0, r0, p as int)); assert(node_ok(b0, g0, r0, s as int));
    assert(node_ok(b0, g0, r0, sl as int));
    assert(color_ok(b0, g0, p as int, n)); assert(color_ok(b0, g0, s as int, n)); assert(color_ok(b0, g0, sl as int, n));
    if sr != EMPTY_REF { assert(node_ok(b0, g0, r0, sr as int)); assert(color_ok(b0, g0, sr as int, n)); }
    if slr != EMPTY_REF { assert(node_ok(b0, g0, r0, slr as int)); assert(color_ok(b0, g0, slr as int, n)); }
    if sll != EMPTY_REF { assert(node_ok(b0, g0, r0, sll as int)); assert(color_ok(b0, g0, sll as int, n)); }
    assert(color_def(b1, g1, n));
    assert(color_ok(b1, g1, p as int, n));
    assert(color_ok(b1, g1, s as int, n));
    assert(color_ok(b1, g1, sl as int, n));
    assert forall|i: int| in_tree(b1, g1, i) && i != n implies #[trigger] color_ok(b1, g1, i, n) by {
        assert(in_tree(b0, g0, i));
        assert(node_ok(b0, g0, r0, i));
        assert(color_ok(b0, g0, i, n));
        if i != p as int && i != s as int && i != sl as int && i != slr as int { assert(b1[i] == b0[i]); }
    }
    g1
}

// Case 6 (n LEFT child): black sibling with red outer (right) nephew -> sibling takes the parent's colour,
// parent and outer nephew black, rotate_left(parent); the deficit is gone
#[verifier::rlimit(60)]
pub proof fn lemma_del_case6_left<K: Ord, V>(b0: Buf<K, V>, g0: G, r0: u32, n: int, bm: Buf<K, V>, b1: Buf<K, V>, g1r: G, r1: u32) -> (g1: G)
    requires
        sinv(b0, g0, r0), cinv_def(b0, g0, n), in_tree(b0, g0, n),
        b0[n].parent != EMPTY_REF,
        ({
            let p = b0[n].parent; let s = b0[p as int].right; let sr = b0[s as int].right;
            &&& b0[p as int].left as int == n
            &&& b0[s as int].color == Color::Black
            &&& !is_blk(b0, sr)
            &&& bm =~= b0.update(s as int, set_color(b0[s as int], b0[p as int].color))
                        .update(p as int, set_color(b0[p as int], Color::Black))
                        .update(sr as int, set_color(b0[sr as int], Color::Black))
            &&& rot_left_rel(b1, g1r, r1, bm, g0, r0, p as int)
        }),
        sinv(b1, g1r, r1),
        nil_under(g0, n),
    ensures
        same_shape_at(b1, b0, 0),
        ({
            let p = b0[n].parent; let s = b0[p as int].right; let sr = b0[s as int].right;
            let d = blk(b0[p as int].color);
            &&& g1 == (G { ord: g1r.ord, ng: add_bh(add_bh(add_bh(add_bh(g1r.ng, n, -1), p as int, -d), sr as int, 1), s as int, d) })
            &&& sinv(b1, g1, r1) && cinv(b1, g1, -1)
            &&& same_shape_at(b1, b0, n)
            &&& same_entities(b1, b0)
            &&& g1.ord == g0.ord
        }),
{
    let p = b0[n].parent; let s = b0[p as int].right; let sr = b0[s as int].right;
    let d = blk(b0[p as int].color);
    let g1 = G { ord: g1r.ord, ng: add_bh(add_bh(add_bh(add_bh(g1r.ng, n, -1), p as int, -d), sr as int, 1), s as int, d) };
    lemma_del_facts(b0, g0, r0, n);
    lemma_sinv_same_struct(b1, g1, b1, g1r, r1);
    reveal(sinv); reveal(cinv_def); reveal(cinv);
    let sl = b0[s as int].left; let gp = b0[p as int].parent;
    assert(node_ok(b0, g0, r0, n)); assert(node_ok(b0, g0, r0, p as int)); assert(node_ok(b0, g0, r0, s as int));
    assert(node_ok(b0, g0, r0, sr as int));
    assert(color_ok(b0, g0, p as int, n)); assert(color_ok(b0, g0, s as int, n)); assert(color_ok(b0, g0, sr as int, n));
    if sl != EMPTY_REF { assert(node_ok(b0, g0, r0, sl as int)); assert(color_ok(b0, g0, sl as int, n)); }
    if gp != EMPTY_REF { assert(node_ok(b0, g0, r0, gp as int)); assert(color_ok(b0, g0, gp as int, n)); }
    assert(color_ok(b1, g1, n, -1));
    assert(color_ok(b1, g1, p as int, -1));
    assert(color_ok(b1, g1, s as int, -1));
    assert(color_ok(b1, g1, sr as int, -1));
    if gp != EMPTY_REF { assert(color_ok(b1, g1, gp as int, -1)); }
    assert forall|i: int| in_tree(b1, g1, i) implies #[trigger] color_ok(b1, g1, i, -1) by {
        assert(in_tree(b0, g0, i));
        assert(node_ok(b0, g0, r0, i));
        if i != n { assert(color_ok(b0, g0, i, n)); }
        if i != n && i != p as int && i != s as int && i != sr as int && i != sl as int && i != gp as int { assert(b1[i] == b0[i]); }
    }
    g1
}

// Case 2 (n is the RIGHT child): red sibling -> sibling black, parent red, rotate_right(parent); the deficit stays at n
#[verifier::rlimit(60)]
pub proof fn lemma_del_red_sibling_right<K: Ord, V>(b0: Buf<K, V>, g0: G, r0: u32, n: int, bm: Buf<K, V>, b1: Buf<K, V>, g1r: G, r1: u32) -> (g1: G)
    requires
        sinv(b0, g0, r0), cinv_def(b0, g0, n), in_tree(b0, g0, n),
        b0[n].parent != EMPTY_REF,
        ({
            let p = b0[n].parent; let s = b0[p as int].left;
            &&& b0[p as int].right as int == n
            &&& b0[s as int].color == Color::Red
            &&& bm =~= b0.update(s as int, set_color(b0[s as int], Color::Black)).update(p as int, set_color(b0[p as int], Color::Red))
            &&& rot_right_rel(b1, g1r, r1, bm, g0, r0, p as int)
        }),
        sinv(b1, g1r, r1),
        nil_under(g0, n),
    ensures
        same_shape_at(b1, b0, 0), nil_under(g1, n), range_len(g1, n) == range_len(g0, n),
        ({
            let p = b0[n].parent; let s = b0[p as int].left;
            &&& g1 == (G { ord: g1r.ord, ng: add_bh(add_bh(g1r.ng, p as int, -1), s as int, 1) })
            &&& sinv(b1, g1, r1) && cinv_def(b1, g1, n) && in_tree(b1, g1, n)
            &&& b1[n] == b0[n]
            &&& b1[p as int].right as int == n
            &&& b1[p as int].color == Color::Red
            &&& b1[p as int].left == b0[s as int].right
            &&& b1[p as int].left != EMPTY_REF
            &&& b1[b1[p as int].left as int].color == Color::Black
            &&& same_entities(b1, b0)
            &&& g1.ord == g0.ord
        }),
{
    let p = b0[n].parent; let s = b0[p as int].left;
    let g1 = G { ord: g1r.ord, ng: add_bh(add_bh(g1r.ng, p as int, -1), s as int, 1) };
    lemma_del_facts(b0, g0, r0, n);
    lemma_sinv_same_struct(b1, g1, b1, g1r, r1);
    reveal(sinv); reveal(cinv_def);
    let sl = b0[s as int].right; let sr = b0[s as int].left; let gp = b0[p as int].parent;
    assert(node_ok(b0, g0, r0, n)); assert(node_ok(b0, g0, r0, p as int)); assert(node_ok(b0, g0, r0, s as int));
    assert(node_ok(b0, g0, r0, sl as int)); assert(node_ok(b0, g0, r0, sr as int));
    assert(color_ok(b0, g0, p as int, n)); assert(color_ok(b0, g0, s as int, n));
    assert(color_ok(b0, g0, sl as int, n)); assert(color_ok(b0, g0, sr as int, n));
    if gp != EMPTY_REF { assert(node_ok(b0, g0, r0, gp as int)); assert(color_ok(b0, g0, gp as int, n)); }
    assert(color_def(b1, g1, n));
    assert(color_ok(b1, g1, p as int, n));
    assert(color_ok(b1, g1, s as int, n));
    assert(color_ok(b1, g1, sl as int, n));
    if gp != EMPTY_REF { assert(color_ok(b1, g1, gp as int, n)); }
    assert forall|i: int| in_tree(b1, g1, i) && i != n implies #[trigger] color_ok(b1, g1, i, n) by {
        assert(in_tree(b0, g0, i));
        assert(node_ok(b0, g0, r0, i));
        assert(color_ok(b0, g0, i, n));
        if i != p as int && i != s as int && i != sl as int && i != gp as int { assert(b1[i] == b0[i]); }
    }
    g1
}

// Case 5 (n RIGHT child): black sibling, outer (right) nephew black, inner (left) nephew red ->
// inner nephew black, sibling red, rotate_left(sibling); afterwards the outer nephew is red
#[verifier::rlimit(60)]
pub proof fn lemma_del_case5_right<K: Ord, V>(b0: Buf<K, V>, g0: G, r0: u32, n: int, bm: Buf<K, V>, b1: Buf<K, V>, g1r: G, r1: u32) -> (g1: G)
    requires
        sinv(b0, g0, r0), cinv_def(b0, g0, n), in_tree(b0, g0, n),
        b0[n].parent != EMPTY_REF,
        ({
            let p = b0[n].parent; let s = b0[p as int].left; let sl = b0[s as int].right;
            &&& b0[p as int].right as int == n
            &&& b0[s as int].color == Color::Black
            &&& is_blk(b0, b0[s as int].left)
            &&& !is_blk(b0, sl)
            &&& bm =~= b0.update(sl as int, set_color(b0[sl as int], Color::Black)).update(s as int, set_color(b0[s as int], Color::Red))
            &&& rot_left_rel(b1, g1r, r1, bm, g0, r0, s as int)
        }),
        sinv(b1, g1r, r1),
        nil_under(g0, n),
    ensures
        same_shape_at(b1, b0, 0), nil_under(g1, n), range_len(g1, n) == range_len(g0, n),
        ({
            let p = b0[n].parent; let s = b0[p as int].left; let sl = b0[s as int].right;
            &&& g1 == (G { ord: g1r.ord, ng: add_bh(add_bh(g1r.ng, sl as int, 1), s as int, -1) })
            &&& sinv(b1, g1, r1) && cinv_def(b1, g1, n) && in_tree(b1, g1, n)
            &&& b1[n] == b0[n]
            &&& b1[p as int].right as int == n
            &&& b1[p as int].color == b0[p as int].color
            &&& b1[p as int].left == sl
            &&& b1[sl as int].color == Color::Black
            &&& b1[sl as int].left == s
            &&& b1[s as int].color == Color::Red
            &&& same_entities(b1, b0)
            &&& g1.ord == g0.ord
        }),
{
    let p = b0[n].parent; let s = b0[p as int].left; let sl = b0[s as int].right;
    let g1 = G { ord: g1r.ord, ng: add_bh(add_bh(g1r.ng, sl as int, 1), s as int, -1) };
    lemma_del_facts(b0, g0, r0, n);
    lemma_sinv_same_struct(b1, g1, b1, g1r, r1);
    reveal(sinv); reveal(cinv_def);
    let sr = b0[s as int].left; let slr = b0[sl as int].left; let sll = b0[sl as int].right;
    assert(node_ok(b0, g0, r0, n)); assert(node_ok(b0, g0, r0, p as int)); assert(node_ok(b0, g0, r0, s as int));
    assert(node_ok(b0, g0, r0, sl as int));
    assert(color_ok(b0, g0, p as int, n)); assert(color_ok(b0, g0, s as int, n)); assert(color_ok(b0, g0, sl as int, n));
    if sr != EMPTY_REF { assert(node_ok(b0, g0, r0, sr as int)); assert(color_ok(b0, g0, sr as int, n)); }
    if slr != EMPTY_REF { assert(node_ok(b0, g0, r0, slr as int)); assert(color_ok(b0, g0, slr as int, n)); }
    if sll != EMPTY_REF { assert(node_ok(b0, g0, r0, sll as int)); assert(color_ok(b0, g0, sll as int, n)); }
    assert(color_def(b1, g1, n));
    assert(color_ok(b1, g1, p as int, n));
    assert(color_ok(b1, g1, s as int, n));
    assert(color_ok(b1, g1, sl as int, n));
    assert forall|i: int| in_tree(b1, g1, i) && i != n implies #[trigger] color_ok(b1, g1, i, n) by {
        assert(in_tree(b0, g0, i));
        assert(node_ok(b0, g0, r0, i));
        assert(color_ok(b0, g0, i, n));
        if i != p as int && i != s as int && i != sl as int && i != slr as int { assert(b1[i] == b0[i]); }
    }
    g1
}

// Case 6 (n RIGHT child): black sibling with red outer (right) nephew -> sibling takes the parent's colour,
// parent and outer nephew black, rotate_right(parent); the deficit is gone
#[verifier::rlimit(60)]
pub proof fn lemma_del_case6_right<K: Ord, V>(b0: Buf<K, V>, g0: G, r0: u32, n: int, bm: Buf<K, V>, b1: Buf<K, V>, g1r: G, r1: u32) -> (g1: G)
    requires
        sinv(b0, g0, r0), cinv_def(b0, g0, n), in_tree(b0, g0, n),
        b0[n].parent != EMPTY_REF,
        ({
            let p = b0[n].parent; let s = b0[p as int].left; let sr = b0[s as int].left;
            &&& b0[p as int].right as int == n
            &&& b0[s as int].color == Color::Black
            &&& !is_blk(b0, sr)
            &&& bm =~= b0.update(s as int, set_color(b0[s as int], b0[p as int].color))
                        .update(p as int, set_color(b0[p as int], Color::Black))
                        .update(sr as int, set_color(b0[sr as int], Color::Black))
            &&& rot_right_rel(b1, g1r, r1, bm, g0, r0, p as int)
        }),
        sinv(b1, g1r, r1),
        nil_under(g0, n),
    ensures
        same_shape_at(b1, b0, 0),
        ({
            let p = b0[n].parent; let s = b0[p as int].left; let sr = b0[s as int].left;
            let d = blk(b0[p as int].color);
            &&& g1 == (G { ord: g1r.ord, ng: add_bh(add_bh(add_bh(add_bh(g1r.ng, n, -1), p as int, -d), sr as int, 1), s as int, d) })
            &&& sinv(b1, g1, r1) && cinv(b1, g1, -1)
            &&& same_shape_at(b1, b0, n)
            &&& same_entities(b1, b0)
            &&& g1.ord == g0.ord
        }),
{
    let p = b0[n].parent; let s = b0[p as int].left; let sr = b0[s as int].left;
    let d = blk(b0[p as int].color);
    let g1 = G { ord: g1r.ord, ng: add_bh(add_bh(add_bh(add_bh(g1r.ng, n, -1), p as int, -d), sr as int, 1), s as int, d) };
    lemma_del_facts(b0, g0, r0, n);
    lemma_sinv_same_struct(b1, g1, b1, g1r, r1);
    reveal(sinv); reveal(cinv_def); reveal(cinv);
    let sl = b0[s as int].right; let gp = b0[p as int].parent;
    assert(node_ok(b0, g0, r0, n)); assert(node_ok(b0, g0, r0, p as int)); assert(node_ok(b0, g0, r0, s as int));
    assert(node_ok(b0, g0, r0, sr as int));
    assert(color_ok(b0, g0, p as int, n)); assert(color_ok(b0, g0, s as int, n)); assert(color_ok(b0, g0, sr as int, n));
    if sl != EMPTY_REF { assert(node_ok(b0, g0, r0, sl as int)); assert(color_ok(b0, g0, sl as int, n)); }
    if gp != EMPTY_REF { assert(node_ok(b0, g0, r0, gp as int)); assert(color_ok(b0, g0, gp as int, n)); }
    assert(color_ok(b1, g1, n, -1));
    assert(color_ok(b1, g1, p as int, -1));
    assert(color_ok(b1, g1, s as int, -1));
    assert(color_ok(b1, g1, sr as int, -1));
    if gp != EMPTY_REF { assert(color_ok(b1, g1, gp as int, -1)); }
    assert forall|i: int| in_tree(b1, g1, i) implies #[trigger] color_ok(b1, g1, i, -1) by {
        assert(in_tree(b0, g0, i));
        assert(node_ok(b0, g0, r0, i));
        if i != n { assert(color_ok(b0, g0, i, n)); }
        if i != n && i != p as int && i != s as int && i != sr as int && i != sl as int && i != gp as int { assert(b1[i] == b0[i]); }
    }
    g1
}

impl<K: Copy + Ord + Default, V: Clone + Default> MapTree<K, V> {
    pub open spec fn buf(&self) -> Buf<K, V> { self.store.buffer@ }

    #[inline(always)]
    pub(super) fn node(&self, index: u32) -> (r: &Node<K, V>)
        requires (index as int) < self.store.buffer@.len(),
        ensures *r == self.store.buffer@[index as int],
    {
        &self.store.buffer[index as usize]
    }

    #[inline(always)]
    pub(super) fn node_mut(&mut self, index: u32) -> (r: &mut Node<K, V>)
        requires (index as int) < old(self).store.buffer@.len(),
        ensures
            *r == old(self).store.buffer@[index as int],
            final(self).store.buffer@ == old(self).store.buffer@.update(index as int, *final(r)),
            final(self).store.unused == old(self).store.unused,
            final(self).root == old(self).root,
            final(self).g == old(self).g,
    {
        &mut self.store.buffer[index as usize]
    }

    fn rotate_left(&mut self, index: u32)
        requires
            sinv(old(self).store.buffer@, old(self).g@, old(self).root),
            in_tree(old(self).store.buffer@, old(self).g@, index as int),
            old(self).store.buffer@[index as int].right != EMPTY_REF,
        ensures
            sinv(final(self).store.buffer@, final(self).g@, final(self).root),
            same_payload(final(self).store.buffer@, old(self).store.buffer@),
            final(self).store.unused == old(self).store.unused,
            rot_left_rel(final(self).store.buffer@, final(self).g@, final(self).root, old(self).store.buffer@, old(self).g@, old(self).root, index as int),
    {
        proof {
            let b0 = self.store.buffer@; let g0 = self.g@; let r0 = self.root;
            lemma_links(b0, g0, r0, index as int);
            let y = b0[index as int].right; let c = b0[y as int].left; let p = b0[index as int].parent;
            lemma_links(b0, g0, r0, y as int);
            if c != EMPTY_REF { lemma_links(b0, g0, r0, c as int); }
            if p != EMPTY_REF { lemma_links(b0, g0, r0, p as int); }
        }
        let n = self.node(index);
        let p = n.parent;
        let rt_index = n.right;

        let rt_node = self.node_mut(rt_index);
        let rt_left = rt_node.left;
        rt_node.left = index;

        if rt_left != EMPTY_REF {
            self.node_mut(rt_left).parent = index;
        }
        let node = self.node_mut(index);
        node.right = rt_left;
        node.parent = rt_index;

        self.replace_parents_child(p, index, rt_index);
        proof {
            let b0 = old(self).store.buffer@; let g0 = old(self).g@; let r0 = old(self).root;
            let ng1 = g0.ng.update(index as int, NG { b: g0.ng[rt_index as int].pos, ..g0.ng[index as int] })
                         .update(rt_index as int, NG { a: g0.ng[index as int].a, ..g0.ng[rt_index as int] });
            self.g@ = G { ord: g0.ord, ng: ng1 };
            lemma_rot_left(self.store.buffer@, self.g@, self.root, b0, g0, r0, index as int);
        }
    }


    fn rotate_right(&mut self, index: u32)
        requires
            sinv(old(self).store.buffer@, old(self).g@, old(self).root),
            in_tree(old(self).store.buffer@, old(self).g@, index as int),
            old(self).store.buffer@[index as int].left != EMPTY_REF,
        ensures
            sinv(final(self).store.buffer@, final(self).g@, final(self).root),
            same_payload(final(self).store.buffer@, old(self).store.buffer@),
            final(self).store.unused == old(self).store.unused,
            rot_right_rel(final(self).store.buffer@, final(self).g@, final(self).root, old(self).store.buffer@, old(self).g@, old(self).root, index as int),
    {
        proof {
            let b0 = self.store.buffer@; let g0 = self.g@; let r0 = self.root;
            lemma_links(b0, g0, r0, index as int);
            let y = b0[index as int].left; let c = b0[y as int].right; let p = b0[index as int].parent;
            lemma_links(b0, g0, r0, y as int);
            if c != EMPTY_REF { lemma_links(b0, g0, r0, c as int); }
            if p != EMPTY_REF { lemma_links(b0, g0, r0, p as int); }
        }
        let n = self.node(index);
        let p = n.parent;
        let lt_index = n.left;

        let lt_node = self.node_mut(lt_index);
        let lt_right = lt_node.right;
        lt_node.right = index;

        if lt_right != EMPTY_REF {
            self.node_mut(lt_right).parent = index;
        }

        let node = self.node_mut(index);
        node.left = lt_right;
        node.parent = lt_index;

        self.replace_parents_child(p, index, lt_index);
        proof {
            let b0 = old(self).store.buffer@; let g0 = old(self).g@; let r0 = old(self).root;
            let ng1 = g0.ng.update(index as int, NG { a: g0.ng[lt_index as int].pos + 1, ..g0.ng[index as int] })
                         .update(lt_index as int, NG { b: g0.ng[index as int].b, ..g0.ng[lt_index as int] });
            self.g@ = G { ord: g0.ord, ng: ng1 };
            lemma_rot_right(self.store.buffer@, self.g@, self.root, b0, g0, r0, index as int);
        }
    }


    #[inline]
    fn get_uncle(&self, p_index: u32) -> (r: u32)
        requires
            sinv(self.store.buffer@, self.g@, self.root),
            in_tree(self.store.buffer@, self.g@, p_index as int),
            self.store.buffer@[p_index as int].parent != EMPTY_REF,
        ensures
            ({
                let gp = self.store.buffer@[self.store.buffer@[p_index as int].parent as int];
                r == (if gp.left == p_index { gp.right } else { gp.left })
            }),
    {
        proof { lemma_links(self.store.buffer@, self.g@, self.root, p_index as int); }
        let parent = self.node(p_index);
        let grandparent = self.node(parent.parent);

        if grandparent.left == p_index {
            grandparent.right
        } else {
            grandparent.left
        }
    }

    fn fix_red_black_properties_after_insert(&mut self, n_index: u32, p_origin: u32)
        requires
            sinv(old(self).store.buffer@, old(self).g@, old(self).root),
            cinv(old(self).store.buffer@, old(self).g@, n_index as int),
            in_tree(old(self).store.buffer@, old(self).g@, n_index as int),
            old(self).store.buffer@[n_index as int].parent == p_origin,
            p_origin != EMPTY_REF,
            old(self).store.buffer@[n_index as int].color == Color::Red,
            old(self).store.buffer@[p_origin as int].color == Color::Red,
        ensures
            sinv(final(self).store.buffer@, final(self).g@, final(self).root),
            cinv(final(self).store.buffer@, final(self).g@, -1),
            same_entities(final(self).store.buffer@, old(self).store.buffer@),
            final(self).store.unused == old(self).store.unused,
            final(self).g@.ord == old(self).g@.ord,
        decreases old(self).g@.ord.len() - range_len(old(self).g@, n_index as int),
    {
        proof { lemma_insert_fix_facts(self.store.buffer@, self.g@, self.root, n_index as int); }
        // parent is red!
        let mut p_index = p_origin;
        let g_index = self.node(p_index).parent;
        if g_index == EMPTY_REF {
            self.node_mut(p_index).color = Color::Black;
            proof { self.g@ = lemma_insert_case2(old(self).store.buffer@, old(self).g@, old(self).root, n_index as int, self.store.buffer@); }
            return;
        }

        // Case 3: Uncle is red -> recolor parent, grandparent and uncle
        let u_index = self.get_uncle(p_index);

        if u_index != EMPTY_REF && self.node(u_index).color == Color::Red {
            self.node_mut(p_index).color = Color::Black;
            self.node_mut(g_index).color = Color::Red;
            self.node_mut(u_index).color = Color::Black;
            proof { self.g@ = lemma_insert_case3(old(self).store.buffer@, old(self).g@, old(self).root, n_index as int, self.store.buffer@); }

            // Call recursively for grandparent, which is now red.
            let gg_index = self.node(g_index).parent;
            if gg_index != EMPTY_REF && self.node(gg_index).color == Color::Red {
                self.fix_red_black_properties_after_insert(g_index, gg_index);
            } else {
                proof { lemma_cinv_drop_exc(self.store.buffer@, self.g@, self.root, g_index as int); }
            }
        } else if p_index == self.node(g_index).left {
            // Parent is left child of grandparent
            // Case 4a: Uncle is black and node is left->right "inner child" of its grandparent
            let ghost mut x = n_index as int;
            if n_index == self.node(p_index).right {
                self.rotate_left(p_index);
                proof {
                    lemma_ins_inner_left(old(self).store.buffer@, old(self).g@, old(self).root, n_index as int, self.store.buffer@, self.g@, self.root);
                    x = p_index as int;
                }

                // Let "parent" point to the new root node of the rotated subtree.
                p_index = n_index;
            }
            let ghost s1 = (self.store.buffer@, self.g@, self.root);
            proof { reveal(sinv); assert(node_ok(s1.0, s1.1, s1.2, p_index as int)); lemma_links(s1.0, s1.1, s1.2, x); lemma_links(s1.0, s1.1, s1.2, p_index as int); }

            // Case 5a: Uncle is black and node is left->left "outer child" of its grandparent
            self.rotate_right(g_index);
            let ghost s2 = (self.store.buffer@, self.g@, self.root);

            // Recolor original parent and grandparent
            self.node_mut(p_index).color = Color::Black;
            self.node_mut(g_index).color = Color::Red;
            proof { self.g@ = lemma_ins_outer_left(s1.0, s1.1, s1.2, x, s2.0, s2.1, s2.2, self.store.buffer@); }
        } else {
            // Parent is right child of grandparent
            // Case 4b: Uncle is black and node is right->left "inner child" of its grandparent
            let ghost mut x = n_index as int;
            if n_index == self.node(p_index).left {
                self.rotate_right(p_index);
                proof {
                    lemma_ins_inner_right(old(self).store.buffer@, old(self).g@, old(self).root, n_index as int, self.store.buffer@, self.g@, self.root);
                    x = p_index as int;
                }

                // Let "parent" point to the new root node of the rotated subtree.
                p_index = n_index;
            }
            let ghost s1 = (self.store.buffer@, self.g@, self.root);
            proof { reveal(sinv); assert(node_ok(s1.0, s1.1, s1.2, p_index as int)); lemma_links(s1.0, s1.1, s1.2, x); lemma_links(s1.0, s1.1, s1.2, p_index as int); }

            // Case 5b: Uncle is black and node is right->right "outer child" of its grandparent
            self.rotate_left(g_index);
            let ghost s2 = (self.store.buffer@, self.g@, self.root);

            // Recolor original parent and grandparent
            self.node_mut(p_index).color = Color::Black;
            self.node_mut(g_index).color = Color::Red;
            proof { self.g@ = lemma_ins_outer_right(s1.0, s1.1, s1.2, x, s2.0, s2.1, s2.2, self.store.buffer@); }
        }
    }


    #[inline(always)]
    fn is_black(&self, index: u32) -> (r: bool)
        requires index == EMPTY_REF || (index as int) < self.store.buffer@.len(),
        ensures r == is_blk(self.store.buffer@, index),
    {
        index == EMPTY_REF || self.node(index).color == Color::Black
    }

    #[inline(always)]
    fn get_sibling(&self, n_index: u32) -> (r: u32)
        requires
            sinv(self.store.buffer@, self.g@, self.root),
            in_tree(self.store.buffer@, self.g@, n_index as int),
            self.store.buffer@[n_index as int].parent != EMPTY_REF,
        ensures r == sibling_of(self.store.buffer@, n_index as int),
    {
        proof { lemma_links(self.store.buffer@, self.g@, self.root, n_index as int); }
        let p_index = self.node(n_index).parent;
        let parent = self.node(p_index);
        if n_index == parent.left {
            parent.right
        } else {
            parent.left
        }
    }

    fn fix_red_black_properties_after_delete(&mut self, n_index: u32)
        requires
            sinv(old(self).store.buffer@, old(self).g@, old(self).root),
            cinv_def(old(self).store.buffer@, old(self).g@, n_index as int),
            in_tree(old(self).store.buffer@, old(self).g@, n_index as int),
            nil_under(old(self).g@, n_index as int),
        ensures
            sinv(final(self).store.buffer@, final(self).g@, final(self).root),
            cinv(final(self).store.buffer@, final(self).g@, -1),
            same_entities(final(self).store.buffer@, old(self).store.buffer@),
            same_shape_at(final(self).store.buffer@, old(self).store.buffer@, 0),
            final(self).store.unused == old(self).store.unused,
            final(self).g@.ord == old(self).g@.ord,
        decreases old(self).g@.ord.len() - range_len(old(self).g@, n_index as int),
    {
        proof { lemma_links(self.store.buffer@, self.g@, self.root, n_index as int); reveal(sinv); }
        // Case 1: Examined node is root, end of recursion
        if n_index == self.root {
            // do not color root to black
            proof { self.g@ = lemma_del_case1(self.store.buffer@, self.g@, self.root, n_index as int); }
            return;
        }
        proof { reveal(sinv); assert(node_ok(self.store.buffer@, self.g@, self.root, n_index as int)); lemma_del_facts(self.store.buffer@, self.g@, self.root, n_index as int); }

        let mut s_index = self.get_sibling(n_index);

        // Case 2: Red sibling
        if self.node(s_index).color == Color::Red {
            self.handle_red_sibling(n_index, s_index);
            proof { lemma_del_facts(self.store.buffer@, self.g@, self.root, n_index as int); }
            s_index = self.get_sibling(n_index) // Get new sibling for fall-through to cases 3-6
        }
        let ghost s1 = (self.store.buffer@, self.g@, self.root);

        let sibling = self.node(s_index);

        // Cases 3+4: Black sibling with two black children
        if self.is_black(sibling.left) && self.is_black(sibling.right) {
            self.node_mut(s_index).color = Color::Red;
            let p_index = self.node(n_index).parent;

            // Case 3: Black sibling with two black children + red parent
            let parent = self.node_mut(p_index);
            if parent.color == Color::Red {
                parent.color = Color::Black;
                proof { self.g@ = lemma_del_case34(s1.0, s1.1, s1.2, n_index as int, self.store.buffer@); }
            } else {
                // Case 4: Black sibling with two black children + black parent
                proof { self.g@ = lemma_del_case34(s1.0, s1.1, s1.2, n_index as int, self.store.buffer@); }
                self.fix_red_black_properties_after_delete(p_index);
            }
        } else {
            // Case 5+6: Black sibling with at least one red child
            self.handle_black_sibling_with_at_least_one_red_child(n_index, s_index);
        }
    }

    fn handle_black_sibling_with_at_least_one_red_child(&mut self, n_index: u32, s_origin: u32)
        requires
            sinv(old(self).store.buffer@, old(self).g@, old(self).root),
            cinv_def(old(self).store.buffer@, old(self).g@, n_index as int),
            in_tree(old(self).store.buffer@, old(self).g@, n_index as int),
            old(self).store.buffer@[n_index as int].parent != EMPTY_REF,
            s_origin == sibling_of(old(self).store.buffer@, n_index as int),
            old(self).store.buffer@[s_origin as int].color == Color::Black,
            !(is_blk(old(self).store.buffer@, old(self).store.buffer@[s_origin as int].left) && is_blk(old(self).store.buffer@, old(self).store.buffer@[s_origin as int].right)),
            nil_under(old(self).g@, n_index as int),
        ensures
            sinv(final(self).store.buffer@, final(self).g@, final(self).root),
            cinv(final(self).store.buffer@, final(self).g@, -1),
            same_entities(final(self).store.buffer@, old(self).store.buffer@),
            same_shape_at(final(self).store.buffer@, old(self).store.buffer@, 0),
            final(self).store.unused == old(self).store.unused,
            final(self).g@.ord == old(self).g@.ord,
    {
        proof { lemma_del_facts(self.store.buffer@, self.g@, self.root, n_index as int); }
        let p_index = self.node(n_index).parent;

        let mut s_index = s_origin;
        let (mut sibling_left, mut sibling_right) = {
            let sibling = self.node(s_origin);
            (sibling.left, sibling.right)
        };

        let node_is_left_child = n_index == self.node(p_index).left;

        // Case 5: Black sibling with at least one red child + "outer nephew" is black
        // --> Recolor sibling and its child, and rotate around sibling
        if node_is_left_child && self.is_black(sibling_right) {
            if sibling_left != EMPTY_REF {
                self.node_mut(sibling_left).color = Color::Black;
            }
            self.node_mut(s_index).color = Color::Red;
            let ghost bm = self.store.buffer@;
            proof { lemma_sinv_same_struct(bm, self.g@, old(self).store.buffer@, old(self).g@, self.root); }
            self.rotate_right(s_index);
            proof { self.g@ = lemma_del_case5_left(old(self).store.buffer@, old(self).g@, old(self).root, n_index as int, bm, self.store.buffer@, self.g@, self.root); }
            s_index = self.node(p_index).right;

            let sibling = self.node(s_index);
            sibling_left = sibling.left;
            sibling_right = sibling.right;
        } else if !node_is_left_child && self.is_black(sibling_left) {
            if sibling_right != EMPTY_REF {
                self.node_mut(sibling_right).color = Color::Black;
            }
            self.node_mut(s_index).color = Color::Red;
            let ghost bm = self.store.buffer@;
            proof { lemma_sinv_same_struct(bm, self.g@, old(self).store.buffer@, old(self).g@, self.root); }
            self.rotate_left(s_index);
            proof { self.g@ = lemma_del_case5_right(old(self).store.buffer@, old(self).g@, old(self).root, n_index as int, bm, self.store.buffer@, self.g@, self.root); }
            s_index = self.node(p_index).left;

            let sibling = self.node(s_index);
            sibling_left = sibling.left;
            sibling_right = sibling.right;
        }
        let ghost s1 = (self.store.buffer@, self.g@, self.root);
        proof { lemma_del_facts(s1.0, s1.1, s1.2, n_index as int); }

        // Fall-through to case 6...

        // Case 6: Black sibling with at least one red child + "outer nephew" is red
        // --> Recolor sibling + parent + sibling's child, and rotate around parent
        self.node_mut(s_index).color = self.node(p_index).color;
        self.node_mut(p_index).color = Color::Black;
        if node_is_left_child {
            if sibling_right != EMPTY_REF {
                self.node_mut(sibling_right).color = Color::Black;
            }
            let ghost bm = self.store.buffer@;
            proof { lemma_sinv_same_struct(bm, self.g@, s1.0, s1.1, self.root); }
            self.rotate_left(p_index);
            proof { self.g@ = lemma_del_case6_left(s1.0, s1.1, s1.2, n_index as int, bm, self.store.buffer@, self.g@, self.root); }
        } else {
            if sibling_left != EMPTY_REF {
                self.node_mut(sibling_left).color = Color::Black;
            }
            let ghost bm = self.store.buffer@;
            proof { lemma_sinv_same_struct(bm, self.g@, s1.0, s1.1, self.root); }
            self.rotate_right(p_index);
            proof { self.g@ = lemma_del_case6_right(s1.0, s1.1, s1.2, n_index as int, bm, self.store.buffer@, self.g@, self.root); }
        }
    }

    fn handle_red_sibling(&mut self, n_index: u32, s_index: u32)
        requires
            sinv(old(self).store.buffer@, old(self).g@, old(self).root),
            cinv_def(old(self).store.buffer@, old(self).g@, n_index as int),
            in_tree(old(self).store.buffer@, old(self).g@, n_index as int),
            old(self).store.buffer@[n_index as int].parent != EMPTY_REF,
            s_index == sibling_of(old(self).store.buffer@, n_index as int),
            old(self).store.buffer@[s_index as int].color == Color::Red,
            nil_under(old(self).g@, n_index as int),
        ensures
            same_shape_at(final(self).store.buffer@, old(self).store.buffer@, 0),
            nil_under(final(self).g@, n_index as int),
            range_len(final(self).g@, n_index as int) == range_len(old(self).g@, n_index as int),
            sinv(final(self).store.buffer@, final(self).g@, final(self).root),
            cinv_def(final(self).store.buffer@, final(self).g@, n_index as int),
            in_tree(final(self).store.buffer@, final(self).g@, n_index as int),
            final(self).store.buffer@[n_index as int] == old(self).store.buffer@[n_index as int],
            final(self).store.buffer@[sibling_of(final(self).store.buffer@, n_index as int) as int].color == Color::Black,
            same_entities(final(self).store.buffer@, old(self).store.buffer@),
            final(self).store.unused == old(self).store.unused,
            final(self).g@.ord == old(self).g@.ord,
    {
        proof { lemma_del_facts(self.store.buffer@, self.g@, self.root, n_index as int); }
        // Recolor...

        self.node_mut(s_index).color = Color::Black;
        let p_index = self.node(n_index).parent;
        let parent = self.node_mut(p_index);

        parent.color = Color::Red;

        // ... and rotate
        if n_index == parent.left {
            let ghost bm = self.store.buffer@;
            proof { lemma_sinv_same_struct(bm, self.g@, old(self).store.buffer@, old(self).g@, self.root); }
            self.rotate_left(p_index);
            proof { self.g@ = lemma_del_red_sibling_left(old(self).store.buffer@, old(self).g@, old(self).root, n_index as int, bm, self.store.buffer@, self.g@, self.root); }
        } else {
            let ghost bm = self.store.buffer@;
            proof { lemma_sinv_same_struct(bm, self.g@, old(self).store.buffer@, old(self).g@, self.root); }
            self.rotate_right(p_index);
            proof { self.g@ = lemma_del_red_sibling_right(old(self).store.buffer@, old(self).g@, old(self).root, n_index as int, bm, self.store.buffer@, self.g@, self.root); }
        }
    }

    #[inline]
    fn replace_parents_child(&mut self, parent: u32, old_child: u32, new_child: u32)
        requires
            (new_child as int) < old(self).store.buffer@.len(),
            parent == EMPTY_REF || (parent as int) < old(self).store.buffer@.len(),
            parent != new_child,
        ensures
            final(self).g == old(self).g,
            final(self).store.unused == old(self).store.unused,
            final(self).store.buffer@.len() == old(self).store.buffer@.len(),
            final(self).root == (if parent == EMPTY_REF { new_child } else { old(self).root }),
            forall|i: int| 0 <= i < final(self).store.buffer@.len() && i != new_child as int && i != parent as int ==> #[trigger] final(self).store.buffer@[i] == old(self).store.buffer@[i],
            final(self).store.buffer@[new_child as int] == (Node { parent: parent, ..old(self).store.buffer@[new_child as int] }),
            parent != EMPTY_REF ==> final(self).store.buffer@[parent as int] == (if old(self).store.buffer@[parent as int].left == old_child {
                    Node { left: new_child, ..old(self).store.buffer@[parent as int] }
                } else {
                    Node { right: new_child, ..old(self).store.buffer@[parent as int] }
                }),
    {
        self.node_mut(new_child).parent = parent;
        if parent == EMPTY_REF {
            self.root = new_child;
            return;
        }

        let p = self.node_mut(parent);
        // debug_assert dropped

        if p.left == old_child {
            p.left = new_child;
        } else {
            p.right = new_child;
        }
    }
}
}
} // verus!
fn main() {}
