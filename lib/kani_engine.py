#!/usr/bin/env python3
"""Kani engine: injects harness modules into a scratch copy of /repo and runs the named harnesses"""
import os
import re
import shutil
import subprocess
import time

import framework as F

VERIF = F.VERIF


def prepare(repo, scratch):
    dst = os.path.join(scratch, 'kani_repo')
    if os.path.exists(dst):
        return dst
    os.makedirs(dst)
    shutil.copytree(os.path.join(repo, 'src'), os.path.join(dst, 'src'))
    for f in ('Cargo.toml', 'Cargo.lock'):
        if os.path.exists(os.path.join(repo, f)):
            shutil.copy(os.path.join(repo, f), os.path.join(dst, f))
    # harness module (child of `seg`, reads pub(super) items)
    shutil.copy(os.path.join(VERIF, 'kani', 'seg_harness.rs'), os.path.join(dst, 'src', 'seg', 'verif_kani.rs'))
    with open(os.path.join(dst, 'src', 'seg', 'mod.rs'), 'a') as fh:
        fh.write('\n#[cfg(kani)]\nmod verif_kani;\n')
    # read-only accessor for the private `scale` field of Layout (scratch copy only)
    lp = os.path.join(dst, 'src', 'seg', 'layout.rs')
    s = open(lp).read()
    s += '\n#[cfg(kani)]\nimpl Layout {\n    pub(super) fn scale_for_verif(&self) -> u32 { self.scale }\n}\n'
    open(lp, 'w').write(s)
    os.makedirs(os.path.join(dst, '.cargo'), exist_ok=True)
    with open(os.path.join(dst, '.cargo', 'config.toml'), 'w') as fh:
        fh.write('[net]\noffline = true\n')
    return dst


def run(eng, pid, tier, repo, scratch, seed):
    dst = prepare(repo, scratch)
    res = {'engine': 'kani', 'obligations': [], 'failures': [], 'inconclusive': [], 'cmds': [], 'backends': ['CBMC 6.11 + kissat via Kani 0.68'],
           'harness_results': []}
    env = dict(os.environ, CARGO_NET_OFFLINE='true')
    procs = []
    hs = list(eng['harnesses']) + (list(eng.get('harnesses_thorough', [])) if tier == 'thorough' else [])
    for h in hs:
        cmd = ['cargo', 'kani', '--harness', h, '--output-format', 'terse']
        res['cmds'].append('(cd $SCRATCH/kani_repo && ' + ' '.join(cmd) + ')')
        t0 = time.time()
        # separate target dirs so that harnesses can run concurrently
        e2 = dict(env, CARGO_TARGET_DIR=os.path.join(scratch, 'kani_target_' + re.sub(r'\W', '_', h)))
        p = subprocess.Popen(cmd, cwd=dst, env=e2, stdout=subprocess.PIPE, stderr=subprocess.STDOUT, text=True)
        procs.append((h, p, t0))
    for h, p, t0 in procs:
        try:
            out, _ = p.communicate(timeout=eng.get('timeout_s', 1500))
        except subprocess.TimeoutExpired:
            p.kill()
            out = 'TIMEOUT'
        dt = time.time() - t0
        ok = 'VERIFICATION:- SUCCESSFUL' in out
        failed = 'VERIFICATION:- FAILED' in out
        nchecks = None
        mo = re.search(r'\*\* (\d+) of (\d+) failed', out)
        if mo:
            nchecks = int(mo.group(2))
        mc = re.search(r'\*\* (\d+) of (\d+) cover properties satisfied', out)
        covers = (int(mc.group(1)), int(mc.group(2))) if mc else (0, 0)
        mt = re.search(r'Verification Time: ([\d.]+)s', out)
        res['harness_results'].append({'harness': h, 'ok': ok, 'checks': nchecks, 'covers_satisfied': covers[0], 'covers': covers[1],
                                       'cbmc_s': float(mt.group(1)) if mt else None})
        if ok and covers[0] != covers[1]:
            res['inconclusive'].append({'why': 'kani-cover-unreachable', 'function': 'kani::' + h, 'detail': '%d of %d' % covers})
        res['obligations'].append({'function': 'kani::' + h, 'mode': 'kani-harness', 'ok': ok, 'smt_ms': int(dt * 1000), 'rlimit': None, 'repo_code_lines': 0})
        if failed:
            fails = re.findall(r'Failed Checks: (.*)', out)
            res['failures'].append({'function': 'kani::' + h, 'mode': 'exec', 'kind': 'Kani: ' + '; '.join(fails[:4]),
                                    'site_text': '; '.join(fails[:2]), 'site_origin': None, 'rendered': out[-3000:]})
        elif not ok:
            res['inconclusive'].append({'why': 'kani-no-verdict', 'function': 'kani::' + h, 'detail': out[-1500:]})
    return res
