#!/bin/bash
# authoring helper: extract unit $1 from /repo (or $REPO) and run verus on it
U=$1; shift
VW=${VW:-/var/tmp/vw}; export VW
mkdir -p $VW
python3 - "$U" <<'PY' || exit 2
import sys, json
sys.path.insert(0, '/verif/lib')
import extract, os
u = sys.argv[1]
subst = {k: [tuple(r) for r in v] for k, v in json.load(open('/verif/contracts/subst.json')).items()}
rep = extract.build_unit('/verif/contracts/%s.vrs' % u, '/verif/contracts/base', os.environ.get('REPO', '/repo'), os.environ['VW'] + '/%s.rs' % u, subst_tables=subst)
if rep['problems']:
    print(json.dumps(rep['problems'], indent=1)); sys.exit(2)
for f in rep['files']:
    if f['lost_rewrites'] or f['changed_vs_base']: print('NOTE', f)
PY
cd $VW && verus $U.rs --num-threads 16 "$@" 2>&1 | grep -v "^note: automatically chose\|^\s*$"
