use vstd::prelude::*;
verus! {
mod m {
use vstd::prelude::*;
pub const EMPTY_REF: u32 = u32::MAX;
pub struct Node { pub parent: u32, pub left: u32, pub right: u32 }
pub struct Pool { pub buffer: Vec<Node>, pub unused: Vec<u32> }
impl Pool {
    pub fn put_back(&mut self, index: u32)
        ensures final(self).unused@ == old(self).unused@.push(index), final(self).buffer == old(self).buffer,
    { self.unused.push(index) }
}
pub struct T { pub store: Pool, pub root: u32 }
impl T {
    pub open spec fn links_ok(&self) -> bool {
        forall|i: int| 0 <= i < self.store.buffer@.len() ==> {
            let n = #[trigger] self.store.buffer@[i];
            (n.left == EMPTY_REF || (n.left as int) < self.store.buffer@.len()) && (n.right == EMPTY_REF || (n.right as int) < self.store.buffer@.len())
        }
    }
    fn node(&self, index: u32) -> (r: &Node)
        requires (index as int) < self.store.buffer@.len(),
        ensures *r == self.store.buffer@[index as int],
    { &self.store.buffer[index as usize] }

    #[verifier::exec_allows_no_decreases_clause]
    fn clear(&mut self)
        requires old(self).links_ok(), old(self).root == EMPTY_REF || (old(self).root as int) < old(self).store.buffer@.len(),
            forall|k: int| 0 <= k < old(self).store.unused@.len() ==> (#[trigger] old(self).store.unused@[k] as int) < old(self).store.buffer@.len(),
    {
        if self.root == EMPTY_REF {
            return;
        }
        self.store.put_back(self.root);
        self.root = EMPTY_REF;

        let mut n = 1;
        while n > 0
            invariant
                self.links_ok(),
                n <= self.store.unused@.len(),
                self.store.buffer == old(self).store.buffer,
                forall|k: int| 0 <= k < self.store.unused@.len() ==> (#[trigger] self.store.unused@[k] as int) < self.store.buffer@.len(),
        {
            let i0 = self.store.unused.len() - n;
            n = 0;
            let ghost len0 = self.store.unused@.len();
            for i in i0..self.store.unused.len()
                invariant
                    self.links_ok(),
                    self.store.buffer == old(self).store.buffer,
                    len0 <= self.store.unused@.len(),
                    n as int == self.store.unused@.len() - len0,
                    n <= 2 * (i - i0),
                    forall|k: int| 0 <= k < self.store.unused@.len() ==> (#[trigger] self.store.unused@[k] as int) < self.store.buffer@.len(),
            {
                let index = self.store.unused[i];
                let node = self.node(index);
                let left = node.left;
                let right = node.right;
                if left != EMPTY_REF {
                    self.store.put_back(left);
                    n += 1;
                }
                if right != EMPTY_REF {
                    self.store.put_back(right);
                    n += 1;
                }
            }
        }
    }
}
}
}
fn main() {}
