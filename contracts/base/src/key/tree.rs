use crate::key::exp::KeyExpCollection;
use crate::key::node::{Color, Node};
use crate::key::pool::Pool;
use crate::{Expiration, ExpiredKey, EMPTY_REF};
use std::cmp::Ordering;
use std::marker::PhantomData;
use crate::key::entity::Entity;

pub struct KeyExpTree<K, E, V> {
    pub(super) store: Pool<K, E, V>,
    pub(super) root: u32,
    phantom_data: PhantomData<E>
}

const NIL_INDEX: u32 = 0;

impl<K: ExpiredKey<E>, E: Expiration, V: Copy> KeyExpTree<K, E, V> {
    #[inline]
    pub fn new(capacity: usize) -> Self {
        let mut store = Pool::new(capacity);
        let nil_index = store.get_free_index();
        assert_eq!(nil_index, NIL_INDEX);
        Self {
            store,
            root: EMPTY_REF,
            phantom_data: Default::default(),
        }
    }
}

impl<K: ExpiredKey<E>, E: Expiration, V: Copy> KeyExpCollection<K, E, V> for KeyExpTree<K, E, V> {
    #[inline(always)]
    fn is_empty(&self) -> bool {
        self.root == EMPTY_REF
    }

    #[inline(always)]
    fn insert(&mut self, key: K, val: V, time: E) {
        debug_assert!(key.expiration() >= time, "The value is already expired");
        self.insert_entity(Entity::new(key, val), time);
    }

    #[inline(always)]
    fn get_value(&mut self, time: E, key: K) -> Option<V> {
        self.search_value(time, key)
    }

    #[inline]
    fn first_less(&mut self, time: E, default: V, key: K) -> V {
        self.search_first_less(time, default, key)
    }

    #[inline]
    fn first_less_or_equal(&mut self, time: E, default: V, key: K) -> V {
        self.search_first_less_or_equal(time, default, key)
    }

    #[inline]
    fn first_less_or_equal_by<F>(&mut self, time: E, default: V, f: F) -> V
    where
        F: Fn(K) -> Ordering
    {
        self.search_first_less_or_equal_by(time, default, f)
    }

    fn clear(&mut self) {
        if self.root == EMPTY_REF {
            return;
        }
        self.store.put_back(self.root);
        self.root = EMPTY_REF;

        let mut n = 1;
        while n > 0 {
            let i0 = self.store.unused.len() - n;
            n = 0;
            for i in i0..self.store.unused.len() {
                let index = self.store.unused[i];
                let node = self.node(index);
                let left = node.left;
                let right = node.right;
                if left != EMPTY_REF {
                    self.store.put_back(left);
                    n += 1;
                }
                if right != EMPTY_REF {
                    self.store.put_back(right);
                    n += 1;
                }
            }
        }
    }
}

impl<K: ExpiredKey<E>, E: Expiration, V: Copy> KeyExpTree<K, E, V> {
    #[inline(always)]
    fn is_black(&self, index: u32) -> bool {
        index == EMPTY_REF || self.node(index).color == Color::Black
    }

    #[inline(always)]
    pub(super) fn node(&self, index: u32) -> &Node<K, E, V> {
        unsafe { self.store.buffer.get_unchecked(index as usize) }
    }

    #[inline(always)]
    pub(super) fn node_mut(&mut self, index: u32) -> &mut Node<K, E, V> {
        unsafe { self.store.buffer.get_unchecked_mut(index as usize) }
    }

    #[inline]
    pub(super) fn expire_root(&mut self, time: E) -> u32 {
        let mut index = self.root;

        while index != EMPTY_REF {
            let node = self.node(index);
            if node.is_not_expired(time) {
                return index;
            }
            self.delete_index(index);
            index = self.root;
        }
        index
    }

    #[inline]
    pub(super) fn expire_left(&mut self, n_index: u32, time: E) -> u32 {
        let mut index = self.node(n_index).left;

        while index != EMPTY_REF {
            let node = self.node(index);
            if node.is_not_expired(time) {
                return index;
            }
            self.delete_index(index);
            index = self.node(n_index).left;
        }
        index
    }

    #[inline]
    pub(super) fn expire_right(&mut self, n_index: u32, time: E) -> u32 {
        let mut index = self.node(n_index).right;

        while index != EMPTY_REF {
            let node = self.node(index);
            if node.is_not_expired(time) {
                return index;
            }
            self.delete_index(index);
            index = self.node(n_index).right;
        }
        index
    }

    // #[inline]
    // pub(super) fn expire_parent(&mut self, n_index: u32, time: E) -> u32 {
    //     let mut index = self.node(n_index).parent;
    //
    //     while index != EMPTY_REF {
    //         let node = self.node(index);
    //         if node.is_not_expired(time) {
    //             return index;
    //         }
    //         self.delete_index(index);
    //         index = self.node(n_index).parent;
    //     }
    //     index
    // }

    #[inline]
    fn create_nil_node(&mut self, parent: u32) {
        let node = self.node_mut(NIL_INDEX);
        node.parent = parent;
        node.left = EMPTY_REF;
        node.right = EMPTY_REF;
        node.color = Color::Red;
    }

    #[inline]
    fn insert_root(&mut self, entity: Entity<K, E, V>) {
        let new_index = self.store.get_free_index();
        let new_node = self.node_mut(new_index);
        new_node.parent = EMPTY_REF;
        new_node.left = EMPTY_REF;
        new_node.right = EMPTY_REF;
        new_node.color = Color::Black;
        new_node.entity = entity;
        self.root = new_index;
    }

    #[inline]
    fn search_value(&mut self, time: E, key: K) -> Option<V> {
        let mut index = self.expire_root(time);

        while index != EMPTY_REF {
            let entity = self.node(index).entity;
            match entity.key.cmp(&key) {
                Ordering::Equal => return Some(entity.val),
                Ordering::Less => index = self.expire_right(index, time),
                Ordering::Greater => index = self.expire_left(index, time),
            }
        }

        None
    }

    #[inline]
    fn search_first_less(&mut self, time: E, default: V, key: K) -> V {
        let mut index = self.expire_root(time);
        let mut result = default;
        while index != EMPTY_REF {
            let entity = self.node(index).entity;
            match entity.key.cmp(&key) {
                Ordering::Less => {
                    result = entity.val;
                    index = self.expire_right(index, time);
                },
                _ => index = self.expire_left(index, time),
            }
        }

        result
    }

    #[inline]
    fn search_first_less_or_equal(&mut self, time: E, default: V, key: K) -> V {
        let mut index = self.expire_root(time);
        let mut result = default;
        while index != EMPTY_REF {
            let entity = self.node(index).entity;
            match entity.key.cmp(&key) {
                Ordering::Equal => return entity.val,
                Ordering::Less => {
                    result = entity.val;
                    index = self.expire_right(index, time);
                },
                Ordering::Greater => index = self.expire_left(index, time),
            }
        }

        result
    }

    #[inline]
    fn search_first_less_or_equal_by<F>(&mut self, time: E, default: V, f: F) -> V
    where
        F: Fn(K) -> Ordering,
    {
        let mut index = self.expire_root(time);
        let mut result = default;
        while index != EMPTY_REF {
            let entity = self.node(index).entity;
            match f(entity.key) {
                Ordering::Equal => return entity.val,
                Ordering::Less => {
                    result = entity.val;
                    index = self.expire_right(index, time);
                },
                Ordering::Greater => index = self.expire_left(index, time),
            }
        }

        result
    }

    #[inline]
    fn insert_entity(&mut self, entity: Entity<K, E, V>, time: E) {
        let mut index = self.expire_root(time);
        if index == EMPTY_REF {
            self.insert_root(entity);
            return;
        }

        let key = entity.key;

        loop {
            let p_index = index;
            if key < self.node(index).entity.key {
                index = self.expire_left(index, time);
                if index == EMPTY_REF {
                    self.insert_as_left(entity, p_index);
                    return;
                }
            } else {
                index = self.expire_right(index, time);
                if index == EMPTY_REF {
                    self.insert_as_right(entity, p_index);
                    return;
                }
            }
        }
    }

    #[inline]
    fn insert_new(&mut self, entity: Entity<K, E, V>, p_index: u32) -> u32 {
        let new_index = self.store.get_free_index();
        let new_node = self.node_mut(new_index);
        new_node.parent = p_index;
        new_node.left = EMPTY_REF;
        new_node.right = EMPTY_REF;
        new_node.color = Color::Red;
        new_node.entity = entity;

        new_index
    }

    #[inline]
    fn insert_as_left(&mut self, entity: Entity<K, E, V>, p_index: u32) {
        let new_index = self.insert_new(entity, p_index);

        let parent = self.node_mut(p_index);
        parent.left = new_index;

        if parent.color == Color::Red {
            self.fix_red_black_properties_after_insert(new_index, p_index);
        }
    }

    #[inline]
    fn insert_as_right(&mut self, entity: Entity<K, E, V>, p_index: u32) {
        let new_index = self.insert_new(entity, p_index);

        let parent = self.node_mut(p_index);
        parent.right = new_index;

        if parent.color == Color::Red {
            self.fix_red_black_properties_after_insert(new_index, p_index);
        }
    }


    fn fix_red_black_properties_after_insert(&mut self, n_index: u32, p_origin: u32) {
        // parent is red!
        let mut p_index = p_origin;
        // Case 2:
        // Not having a grandparent means that parent is the root. If we enforce black roots
        // (rule 2), grandparent will never be null, and the following if-then block can be
        // removed.
        let g_index = self.node(p_index).parent;
        if g_index == EMPTY_REF {
            // As this method is only called on red nodes (either on newly inserted ones - or -
            // recursively on red grandparents), all we have to do is to recolor the root black.
            self.node_mut(p_index).color = Color::Black;
            return;
        }

        // Case 3: Uncle is red -> recolor parent, grandparent and uncle
        let u_index = self.get_uncle(p_index);

        if u_index != EMPTY_REF && self.node(u_index).color == Color::Red {
            self.node_mut(p_index).color = Color::Black;
            self.node_mut(g_index).color = Color::Red;
            self.node_mut(u_index).color = Color::Black;

            // Call recursively for grandparent, which is now red.
            // It might be root or have a red parent, in which case we need to fix more...
            let gg_index = self.node(g_index).parent;
            if gg_index != EMPTY_REF && self.node(gg_index).color == Color::Red {
                self.fix_red_black_properties_after_insert(g_index, gg_index);
            }
        } else if p_index == self.node(g_index).left {
            // Parent is left child of grandparent
            // Case 4a: Uncle is black and node is left->right "inner child" of its grandparent
            if n_index == self.node(p_index).right {
                self.rotate_left(p_index);

                // Let "parent" point to the new root node of the rotated subtree.
                // It will be recolored in the next step, which we're going to fall-through to.
                p_index = n_index;
            }

            // Case 5a: Uncle is black and node is left->left "outer child" of its grandparent
            self.rotate_right(g_index);

            // Recolor original parent and grandparent
            self.node_mut(p_index).color = Color::Black;
            self.node_mut(g_index).color = Color::Red;
        } else {
            // Parent is right child of grandparent
            // Case 4b: Uncle is black and node is right->left "inner child" of its grandparent
            if n_index == self.node(p_index).left {
                self.rotate_right(p_index);

                // Let "parent" point to the new root node of the rotated subtree.
                // It will be recolored in the next step, which we're going to fall-through to.
                p_index = n_index;
            }

            // Case 5b: Uncle is black and node is right->right "outer child" of its grandparent
            self.rotate_left(g_index);

            // Recolor original parent and grandparent
            self.node_mut(p_index).color = Color::Black;
            self.node_mut(g_index).color = Color::Red;
        }
    }

    fn rotate_right(&mut self, index: u32) {
        let n = self.node(index);
        let p = n.parent;
        let lt_index = n.left;

        let lt_node = self.node_mut(lt_index);
        let lt_right = lt_node.right;
        lt_node.right = index;

        if lt_right != EMPTY_REF {
            self.node_mut(lt_right).parent = index;
        }

        let node = self.node_mut(index);
        node.left = lt_right;
        node.parent = lt_index;

        self.replace_parents_child(p, index, lt_index);
    }

    fn rotate_left(&mut self, index: u32) {
        let n = self.node(index);
        let p = n.parent;
        let rt_index = n.right;

        let rt_node = self.node_mut(rt_index);
        let rt_left = rt_node.left;
        rt_node.left = index;

        if rt_left != EMPTY_REF {
            self.node_mut(rt_left).parent = index;
        }
        let node = self.node_mut(index);
        node.right = rt_left;
        node.parent = rt_index;

        self.replace_parents_child(p, index, rt_index);
    }

    #[inline]
    fn replace_parents_child(&mut self, parent: u32, old_child: u32, new_child: u32) {
        self.node_mut(new_child).parent = parent;
        if parent == EMPTY_REF {
            self.root = new_child;
            return;
        }

        let p = self.node_mut(parent);
        debug_assert!(
            p.left == old_child || p.right == old_child,
            "Node is not a child of its parent"
        );

        if p.left == old_child {
            p.left = new_child;
        } else {
            p.right = new_child;
        }
    }

    #[inline]
    fn find_left_minimum(&self, mut i: u32) -> u32 {
        while self.node(i).left != EMPTY_REF {
            i = self.node(i).left;
        }
        i
    }

    pub(super) fn delete_index(&mut self, index: u32) {
        // Node has zero or one child
        let mut delete_index= index;

        let node = self.node(index);
        let mut nd_left = node.left;
        let mut nd_right = node.right;
        let mut nd_parent = node.parent;
        let mut nd_color = node.color;

        // if two children replace node with it left minimum
        if nd_left != EMPTY_REF && nd_right != EMPTY_REF {
            let successor_index = self.find_left_minimum(nd_right);
            let successor = self.node(successor_index);
            let entity = successor.entity;
            nd_parent = successor.parent;
            nd_left = successor.left;
            nd_right = successor.right;
            nd_color = successor.color;

            self.node_mut(index).entity = entity;

            delete_index = successor_index;
        }

        // only one child can be!

        if nd_left != EMPTY_REF {
            self.replace_parents_child(nd_parent, delete_index, nd_left);
            self.fix_red_black_properties_after_delete(nd_left);
        } else if nd_right != EMPTY_REF {
            self.replace_parents_child(nd_parent, delete_index, nd_right);
            self.fix_red_black_properties_after_delete(nd_right);
        } else if nd_parent == EMPTY_REF {
            self.root = EMPTY_REF;
        } else {
            // Node has no children -->
            // * node is red --> just remove it
            // * node is black --> replace it by a temporary NIL node (needed to fix the R-B rules)
            if nd_color == Color::Black {
                self.create_nil_node(nd_parent);
                self.set_nil_parents_child(nd_parent, delete_index);
                self.fix_red_black_properties_after_delete(NIL_INDEX);
                self.fix_parents_nil_child();
            } else {
                self.remove_parents_child(nd_parent, delete_index);
            }
        }

        self.store.put_back(delete_index);
    }

    fn fix_red_black_properties_after_delete(&mut self, n_index: u32) {
        // Case 1: Examined node is root, end of recursion
        if n_index == self.root {
            // do not color root to black
            return;
        }

        let mut s_index = self.get_sibling(n_index);

        // Case 2: Red sibling
        if self.node(s_index).color == Color::Red {
            self.handle_red_sibling(n_index, s_index);
            s_index = self.get_sibling(n_index) // Get new sibling for fall-through to cases 3-6
        }

        let sibling = self.node(s_index);

        // Cases 3+4: Black sibling with two black children
        if self.is_black(sibling.left) && self.is_black(sibling.right) {
            self.node_mut(s_index).color = Color::Red;
            let p_index = self.node(n_index).parent;

            // Case 3: Black sibling with two black children + red parent
            let parent = self.node_mut(p_index);
            if parent.color == Color::Red {
                parent.color = Color::Black;
            } else {
                // Case 4: Black sibling with two black children + black parent
                self.fix_red_black_properties_after_delete(p_index);
            }
        } else {
            // Case 5+6: Black sibling with at least one red child
            self.handle_black_sibling_with_at_least_one_red_child(n_index, s_index);
        }
    }

    fn handle_black_sibling_with_at_least_one_red_child(&mut self, n_index: u32, s_origin: u32) {
        let p_index = self.node(n_index).parent;

        let mut s_index = s_origin;
        let (mut sibling_left, mut sibling_right) = {
            let sibling = self.node(s_origin);
            (sibling.left, sibling.right)
        };

        let node_is_left_child = n_index == self.node(p_index).left;

        // Case 5: Black sibling with at least one red child + "outer nephew" is black
        // --> Recolor sibling and its child, and rotate around sibling
        if node_is_left_child && self.is_black(sibling_right) {
            if sibling_left != EMPTY_REF {
                self.node_mut(sibling_left).color = Color::Black;
            }
            self.node_mut(s_index).color = Color::Red;
            self.rotate_right(s_index);
            s_index = self.node(p_index).right;

            let sibling = self.node(s_index);
            sibling_left = sibling.left;
            sibling_right = sibling.right;
        } else if !node_is_left_child && self.is_black(sibling_left) {
            if sibling_right != EMPTY_REF {
                self.node_mut(sibling_right).color = Color::Black;
            }
            self.node_mut(s_index).color = Color::Red;
            self.rotate_left(s_index);
            s_index = self.node(p_index).left;

            let sibling = self.node(s_index);
            sibling_left = sibling.left;
            sibling_right = sibling.right;
        }

        // Fall-through to case 6...

        // Case 6: Black sibling with at least one red child + "outer nephew" is red
        // --> Recolor sibling + parent + sibling's child, and rotate around parent
        self.node_mut(s_index).color = self.node(p_index).color;
        self.node_mut(p_index).color = Color::Black;
        if node_is_left_child {
            if sibling_right != EMPTY_REF {
                self.node_mut(sibling_right).color = Color::Black;
            }
            self.rotate_left(p_index)
        } else {
            if sibling_left != EMPTY_REF {
                self.node_mut(sibling_left).color = Color::Black;
            }
            self.rotate_right(p_index)
        }
    }

    fn handle_red_sibling(&mut self, n_index: u32, s_index: u32) {
        // Recolor...

        self.node_mut(s_index).color = Color::Black;
        let p_index = self.node(n_index).parent;
        let parent = self.node_mut(p_index);

        parent.color = Color::Red;

        // ... and rotate
        if n_index == parent.left {
            self.rotate_left(p_index)
        } else {
            self.rotate_right(p_index)
        }
    }

    #[inline]
    fn get_uncle(&self, p_index: u32) -> u32 {
        let parent = self.node(p_index);
        debug_assert!(parent.parent != EMPTY_REF);
        let grandparent = self.node(parent.parent);

        debug_assert!(
            grandparent.left == p_index || grandparent.right == p_index,
            "Parent is not a child of its grandparent"
        );

        if grandparent.left == p_index {
            grandparent.right
        } else {
            grandparent.left
        }
    }

    #[inline(always)]
    fn get_sibling(&self, n_index: u32) -> u32 {
        let p_index = self.node(n_index).parent;
        let parent = self.node(p_index);
        debug_assert!(n_index == parent.left || n_index == parent.right);
        if n_index == parent.left {
            parent.right
        } else {
            parent.left
        }
    }

    #[inline]
    fn remove_parents_child(&mut self, parent: u32, old_child: u32) {
        let p = self.node_mut(parent);
        debug_assert!(
            p.left == old_child || p.right == old_child,
            "Node is not a child of its parent"
        );

        if p.left == old_child {
            p.left = EMPTY_REF;
        } else {
            p.right = EMPTY_REF;
        }
    }

    #[inline]
    fn set_nil_parents_child(&mut self, parent: u32, old_child: u32) {
        let p = self.node_mut(parent);
        debug_assert!(
            p.left == old_child || p.right == old_child,
            "Node is not a child of its parent"
        );

        if p.left == old_child {
            p.left = NIL_INDEX;
        } else {
            p.right = NIL_INDEX;
        }
    }

    #[inline]
    fn fix_parents_nil_child(&mut self) {
        let p_index = self.node(NIL_INDEX).parent;
        let p = self.node_mut(p_index);
        debug_assert!(
            p.left == NIL_INDEX || p.right == NIL_INDEX,
            "Node is not a child of its parent"
        );

        if p.left == NIL_INDEX {
            p.left = EMPTY_REF;
        } else {
            p.right = EMPTY_REF;
        }
    }
}
