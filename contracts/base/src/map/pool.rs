use crate::map::node::Node;

pub(super) struct Pool<K, V> {
    pub(super) buffer: Vec<Node<K, V>>,
    pub(super) unused: Vec<u32>
}

impl<K: Copy + Default, V: Clone + Default> Pool<K, V> {

    #[inline]
    pub(super) fn new(capacity: usize) -> Self {
        let capacity = capacity.max(8);
        let mut store = Self {
            buffer: Vec::with_capacity(capacity),
            unused: Vec::with_capacity(capacity),
        };
        store.reserve(capacity);
        store
    }

    #[inline]
    fn reserve(&mut self, length: usize) {
        debug_assert!(length > 0);
        let n = self.buffer.len() as u32;
        let l = length as u32;
        self.buffer.reserve(length);
        self.buffer.resize(self.buffer.len() + length, Node::default());
        self.unused.reserve(length);
        self.unused.extend((n..n + l).rev());
    }

    #[inline]
    pub(super) fn get_free_index(&mut self) -> u32 {
        if self.unused.is_empty() {
            self.reserve(self.unused.capacity());
        }
        self.unused.pop().unwrap()
    }


    #[inline(always)]
    pub(super) fn put_back(&mut self, index: u32) {
        self.unused.push(index)
    }
}