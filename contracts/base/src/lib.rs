pub mod map;
pub mod key;
pub mod seg;
pub mod set;

pub const EMPTY_REF: u32 = u32::MAX;

pub trait ExpiredKey<E: Expiration>: Copy + Ord {
    fn expiration(&self) -> E;
}

pub trait ExpiredVal<E: Expiration>: Copy {
    fn expiration(&self) -> E;
}

pub trait Expiration: Copy + Ord {
    fn max_expiration() -> Self;
}

impl Expiration for u8 {
    #[inline]
    fn max_expiration() -> Self {
        u8::MAX
    }
}

impl Expiration for i8 {
    #[inline]
    fn max_expiration() -> Self {
        i8::MAX
    }
}

impl Expiration for u16 {
    #[inline]
    fn max_expiration() -> Self {
        u16::MAX
    }
}

impl Expiration for i16 {
    #[inline]
    fn max_expiration() -> Self {
        i16::MAX
    }
}

impl Expiration for u32 {
    #[inline]
    fn max_expiration() -> Self {
        u32::MAX
    }
}

impl Expiration for i32 {
    #[inline]
    fn max_expiration() -> Self {
        i32::MAX
    }
}

impl Expiration for u64 {
    #[inline]
    fn max_expiration() -> Self {
        u64::MAX
    }
}

impl Expiration for i64 {
    #[inline]
    fn max_expiration() -> Self {
        i64::MAX
    }
}

impl Expiration for usize {
    #[inline]
    fn max_expiration() -> Self {
        usize::MAX
    }
}