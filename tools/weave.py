#!/usr/bin/env python3
"""one-off authoring helper: weave the annotations of an annotated function text (probe) into the
transformed base text of a /repo file.  Output: overlay region text for manual review."""
import sys, re, difflib
sys.path.insert(0, '/verif/lib')
import extract

def fns_of(lines):
    """{name: (start, end)} for fn items (start at attribute lines / fn header, end at closing brace)"""
    res = {}
    i = 0
    n = len(lines)
    while i < n:
        mo = re.match(r'^(\s*)(?:pub(?:\([a-z]+\))? )?fn (\w+)', lines[i])
        if mo:
            ind = mo.group(1)
            # body end: first line == ind + '}' after header
            j = i + 1
            while j < n and lines[j].rstrip() != ind + '}':
                j += 1
            s = i
            while s > 0 and lines[s-1].strip().startswith('#['):
                s -= 1
            res.setdefault(mo.group(2), (s, j))
            i = j + 1
        else:
            i += 1
    return res

def weave(base_lines, probe_lines, rename=None):
    pf = fns_of(probe_lines)
    bf = fns_of(base_lines)
    out = []
    i = 0
    order = sorted(bf.items(), key=lambda kv: kv[1][0])
    for name, (s, e) in order:
        out.extend(base_lines[i:s])
        pname = (rename or {}).get(name, name)
        if pname not in pf:
            out.extend(base_lines[s:e+1])
            out.append('//@@ TODO no probe fn for %s' % name)
            i = e + 1
            continue
        ps, pe = pf[pname]
        b = base_lines[s:e+1]
        p = probe_lines[ps:pe+1]
        # normalise probe header: `-> (r: T)` stays
        def norm(t):
            t = t.strip()
            t = re.sub(r'-> \((\w+): (.*)\)$', r'-> \2', t)
            t = re.sub(r'^(for \w+ in )\w+: ', r'\1', t)
            return t
        sm = difflib.SequenceMatcher(a=[x.strip() for x in b], b=[norm(x) for x in p], autojunk=False)
        for tag, i1, i2, j1, j2 in sm.get_opcodes():
            if tag == 'equal':
                for d in range(i2 - i1):
                    # keep probe's variant when only ret naming / iter differs
                    out.append(p[j1 + d] if p[j1+d].strip() != b[i1+d].strip() else b[i1 + d])
            elif tag == 'insert':
                out.extend(p[j1:j2])
            elif tag == 'delete':
                out.extend(b[i1:i2])
            else:
                out.extend(b[i1:i2])
                out.append('//@@ REVIEW probe has:')
                out.extend(p[j1:j2])
                out.append('//@@ END-REVIEW')
        i = e + 1
    out.extend(base_lines[i:])
    return out

if __name__ == '__main__':
    basef, probef = sys.argv[1], sys.argv[2]
    c = extract.Counts()
    base = [t for t, _ in extract.transform(open(basef).read(), c)]
    probe = open(probef).read().split('\n')
    rename = dict(a.split('=') for a in sys.argv[3:])
    print('\n'.join(weave(base, probe, rename)))
