use std::cmp::Ordering;

pub trait MapCollection<K, V> {
    fn is_empty(&self) -> bool;
    fn insert(&mut self, key: K, val: V);
    fn delete(&mut self, key: K);
    fn delete_by_index(&mut self, index: u32);
    fn get_value(&self, key: K) -> Option<&V>;
    fn value_by_index(&self, index: u32) -> &V;
    fn value_by_index_mut(&mut self, index: u32) -> &mut V;
    fn first_index_less(&self, key: K) -> u32;
    fn first_index_less_by<F>(&self, f: F) -> u32
    where
        F: Fn(K) -> Ordering;

    fn clear(&mut self);
}
