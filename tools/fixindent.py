#!/usr/bin/env python3
"""authoring helper: re-indent lines that consist only of a closing brace to the indentation of the line that opened the block"""
import sys, re
p = sys.argv[1]
lines = open(p).read().split('\n')
stack = []
fixed = 0
for i, t in enumerate(lines):
    s = t.strip()
    if s.startswith('//'):
        continue
    code = re.sub(r'"(\\.|[^"\\])*"', '""', t)
    code = re.sub(r'//.*$', '', code)
    if re.match(r'^\s*\}[;,]?\s*$', code) and stack:
        ind = stack[-1]
        want = ind + s
        if t != want:
            lines[i] = want
            fixed += 1
    for ch in code:
        if ch == '{':
            stack.append(t[:len(t) - len(t.lstrip())])
        elif ch == '}':
            if stack: stack.pop()
open(p, 'w').write('\n'.join(lines))
print('fixed', fixed, 'unclosed', len(stack))
